//! Exact decimal arithmetic for the reference model (bignum mantissa + scale).
//! Independent of rust_decimal: the model judges rate*amount products exactly.

use cosmwasm_std::Uint256;
use std::cmp::Ordering;
use std::str::FromStr;

pub type U = Uint256;

pub fn u(n: u128) -> U {
    Uint256::from_u128(n)
}

pub fn pow10(k: u32) -> U {
    // 10^k fits in Uint256 for k <= 77
    let mut r = u(1);
    let ten = u(10);
    for _ in 0..k {
        r = r.checked_mul(ten).expect("pow10 overflow");
    }
    r
}

pub fn to_u128(x: U) -> Option<u128> {
    let s = x.to_string();
    s.parse::<u128>().ok()
}

#[derive(Clone, Debug, PartialEq)]
pub struct Dec {
    pub neg: bool,
    pub mant: U,
    pub scale: u32,
}

#[derive(Clone, Debug, PartialEq)]
pub enum Parsed {
    /// canonical spelling `-?[0-9]+(\.[0-9]+)?`, exactly representable in 96 bits / 28 decimals
    Ok(Dec),
    /// clearly not a decimal: every implementation must reject it
    Bad,
    /// a spelling or magnitude on which the statements are silent: the model abstains
    Odd,
    /// canonical spelling, but more digits than 96 bits / 28 decimals hold: it *is* a decimal
    /// (so it can be installed as a rate), the model just does not compute with it
    Long,
}

pub fn two_pow_96() -> U {
    u(1u128 << 96)
}

pub fn parse(s: &str) -> Parsed {
    if s.is_empty() {
        return Parsed::Bad;
    }
    let allowed = |c: char| c.is_ascii_digit() || c == '.' || c == '+' || c == '-' || c == '_';
    if !s.chars().all(allowed) {
        return Parsed::Bad;
    }
    if s.matches('.').count() > 1 {
        return Parsed::Bad;
    }
    for (i, c) in s.chars().enumerate() {
        if (c == '+' || c == '-') && i != 0 {
            return Parsed::Bad;
        }
    }
    let (neg, body) = match s.strip_prefix('-') {
        Some(b) => (true, b),
        None => (false, s),
    };
    // canonical grammar
    let mut parts = body.split('.');
    let ip = parts.next().unwrap_or("");
    let fp = parts.next();
    let digits = |x: &str| !x.is_empty() && x.bytes().all(|b| b.is_ascii_digit());
    if !digits(ip) {
        return Parsed::Odd;
    }
    let (mant_str, scale) = match fp {
        None => (ip.to_string(), 0u32),
        Some(f) => {
            if !digits(f) {
                return Parsed::Odd;
            }
            // zeros written beyond the 28th decimal carry no value (see below); drop them here so
            // that arbitrarily long paddings are read
            let f2 = if f.len() > 28 { f.trim_end_matches('0') } else { f };
            (format!("{}{}", ip, f2), f2.len() as u32)
        }
    };
    if mant_str.len() > 75 {
        return Parsed::Odd;
    }
    let mant = match U::from_str(mant_str.trim_start_matches('0')) {
        Ok(m) => m,
        Err(_) => {
            if mant_str.bytes().all(|b| b == b'0') {
                U::zero()
            } else {
                return Parsed::Odd;
            }
        }
    };
    // rust_decimal holds 96 bits and at most 28 decimals; longer inputs are silently rounded -
    // except that trailing zero decimals which do not fit change nothing (measured): the value
    // is judged after stripping them
    let d = Dec { neg, mant, scale };
    let n = d.normalized();
    if n.scale > 28 || n.mant >= two_pow_96() {
        return Parsed::Long;
    }
    if d.scale > 28 || d.mant >= two_pow_96() {
        return Parsed::Ok(n);
    }
    Parsed::Ok(d)
}

/// Value of a canonical spelling with more than 28 decimals as a 28-decimal arithmetic sees it:
/// the first 28 decimals, plus one unit in the last place when the 29th digit is 5 or more
/// (measured on rust_decimal 1.29: "...00005" -> "...0001", "...00001" -> "...0000").
pub fn parse_rounded28(s: &str) -> Option<Dec> {
    let body = s.strip_prefix('-').unwrap_or(s);
    let neg = s.starts_with('-');
    let mut it = body.split('.');
    let ip = it.next()?;
    let fp = it.next().unwrap_or("");
    if it.next().is_some() || ip.is_empty() || !ip.bytes().all(|b| b.is_ascii_digit()) || !fp.bytes().all(|b| b.is_ascii_digit()) {
        return None;
    }
    let (keep, rest) = if fp.len() > 28 { fp.split_at(28) } else { (fp, "") };
    let m = format!("{}{}", ip, keep);
    let m = m.trim_start_matches('0');
    let mut mant = if m.is_empty() { U::zero() } else { U::from_str(m).ok()? };
    if rest.bytes().next().map(|b| b >= b'5').unwrap_or(false) {
        mant = mant + u(1);
    }
    Some(Dec { neg, mant, scale: keep.len() as u32 })
}

impl Dec {
    pub fn from_int(n: u128) -> Dec {
        Dec {
            neg: false,
            mant: u(n),
            scale: 0,
        }
    }
    pub fn is_zero(&self) -> bool {
        self.mant.is_zero()
    }
    pub fn is_positive(&self) -> bool {
        !self.neg && !self.mant.is_zero()
    }
    /// strip trailing zeros (value unchanged)
    pub fn normalized(&self) -> Dec {
        let mut m = self.mant;
        let mut s = self.scale;
        let ten = u(10);
        while s > 0 && !m.is_zero() && (m % ten).is_zero() {
            m = m / ten;
            s -= 1;
        }
        if m.is_zero() {
            s = 0;
        }
        Dec {
            neg: self.neg && !m.is_zero(),
            mant: m,
            scale: s,
        }
    }
    /// number of decimals the value really needs
    pub fn decimals(&self) -> u32 {
        self.normalized().scale
    }
    /// exactly representable by a 96-bit mantissa with <= 28 decimals
    pub fn representable(&self) -> bool {
        let n = self.normalized();
        n.scale <= 28 && n.mant < two_pow_96()
    }
    pub fn is_integral(&self) -> bool {
        self.normalized().scale == 0
    }
    pub fn to_int(&self) -> Option<U> {
        let n = self.normalized();
        if n.scale == 0 && !n.neg {
            Some(n.mant)
        } else {
            None
        }
    }
    pub fn mul_int(&self, n: U) -> Option<Dec> {
        Some(Dec {
            neg: self.neg,
            mant: self.mant.checked_mul(n).ok()?,
            scale: self.scale,
        })
    }
    pub fn mul(&self, o: &Dec) -> Option<Dec> {
        Some(Dec {
            neg: self.neg != o.neg,
            mant: self.mant.checked_mul(o.mant).ok()?,
            scale: self.scale + o.scale,
        })
    }
    /// round half away from zero to an integer (non-negative values only)
    pub fn round_half_up(&self) -> Option<U> {
        if self.neg && !self.mant.is_zero() {
            return None;
        }
        let den = pow10(self.scale);
        Some(div_half_up(self.mant, den))
    }
    pub fn cmp_val(&self, o: &Dec) -> Ordering {
        // only used for non-negative values
        let s = self.scale.max(o.scale);
        let a = self.mant * pow10(s - self.scale);
        let b = o.mant * pow10(s - o.scale);
        match (self.neg && !self.mant.is_zero(), o.neg && !o.mant.is_zero()) {
            (false, false) => a.cmp(&b),
            (true, true) => b.cmp(&a),
            (true, false) => Ordering::Less,
            (false, true) => Ordering::Greater,
        }
    }
    pub fn eq_val(&self, o: &Dec) -> bool {
        self.cmp_val(o) == Ordering::Equal
    }
}

/// floor((2*num + den) / (2*den)) : half-up rounding of num/den for non-negative operands
pub fn div_half_up(num: U, den: U) -> U {
    let two = u(2);
    (num * two + den) / (den * two)
}

/// is num/den exactly k + 1/2 for an integer k
pub fn is_half_tie(num: U, den: U) -> bool {
    let two = u(2);
    let r = (num * two) % (den * two);
    r == den
}

#[cfg(test)]
mod tests {
    use super::*;
    #[test]
    fn parse_basic() {
        assert!(matches!(parse("2.50"), Parsed::Ok(_)));
        assert_eq!(parse(""), Parsed::Bad);
        assert_eq!(parse("abc"), Parsed::Bad);
        assert_eq!(parse("1e5"), Parsed::Bad);
        assert_eq!(parse("+2"), Parsed::Odd);
        assert_eq!(parse("2."), Parsed::Odd);
        assert_eq!(parse(".5"), Parsed::Odd);
        if let Parsed::Ok(d) = parse("02.500") {
            assert_eq!(d.decimals(), 1);
            assert!(d.eq_val(&Dec { neg: false, mant: u(25), scale: 1 }));
        } else {
            panic!()
        }
    }
    #[test]
    fn rounding() {
        assert_eq!(div_half_up(u(5), u(10)), u(1));
        assert_eq!(div_half_up(u(4), u(10)), u(0));
        assert_eq!(div_half_up(u(15), u(10)), u(2));
        assert!(is_half_tie(u(15), u(10)));
        assert!(!is_half_tie(u(16), u(10)));
    }
}
