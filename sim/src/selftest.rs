//! Hand-written histories for the defects found while reading the code (DESIGN §6).
//! Used to check that the engine and the oracles see them (and, after the repairs, that they pass).

use crate::sim::{enabled_all, Sim};
use crate::types::*;
use serde_json::{json, Value};
use std::collections::BTreeMap;

pub const A1: &str = "ab5f5a62-f6fc-46d1-aa84-51ccc51ec367";
pub const B1: &str = "c13f8888-ca43-4a64-ab1b-1ca8d60aa49b";

pub fn world(prec: u128, inc: u128, ask_fee: Option<&str>, bid_fee: Option<&str>, markers: &[(&str, u8)]) -> WorldSpec {
    let mut m = json!({
        "name": "ats", "base_denom": "base", "convertible_base_denoms": ["conv"],
        "supported_quote_denoms": ["usd"], "approvers": ["approver"], "executors": ["exec"],
        "ask_required_attributes": [], "bid_required_attributes": [],
        "price_precision": prec.to_string(), "size_increment": inc.to_string()
    });
    if let Some(r) = ask_fee {
        m["ask_fee_rate"] = json!(r);
        m["ask_fee_account"] = json!("askfee");
    }
    if let Some(r) = bid_fee {
        m["bid_fee_rate"] = json!(r);
        m["bid_fee_account"] = json!("bidfee");
    }
    WorldSpec {
        contract: "contract_addr".into(),
        creator: "admin".into(),
        instantiate: m,
        markers: markers.iter().map(|(d, k)| (d.to_string(), *k)).collect(),
        attrs: BTreeMap::new(),
        accounts: vec!["seller".into(), "buyer".into(), "approver".into(), "exec".into(), "askfee".into(), "bidfee".into(), "stranger".into()],
        seeds: vec![],
        height: 1000,
        time_ns: 1_600_000_000_000_000_000,
        probe_seed: 1,
        marker_required_attrs: BTreeMap::new(),
        marker_status: BTreeMap::new(),
    }
}

pub fn ex(sender: &str, funds: &[(u128, &str)], msg: Value) -> Step {
    Step::Exec {
        sender: sender.into(),
        funds: funds.iter().map(|(a, d)| crate::chain::CoinS::new(*a, d)).collect(),
        msg,
        faults: Default::default(),
    }
}

pub fn cases() -> Vec<(&'static str, WorldSpec, Vec<Step>)> {
    vec![
        (
            "D1 partial reject then cancel of approved convertible ask",
            world(0, 10, None, None, &[]),
            vec![
                ex("seller", &[(100, "conv")], json!({"create_ask": {"id": A1, "base": "conv", "quote": "usd", "price": "2", "size": "100"}})),
                ex("approver", &[(100, "base")], json!({"approve_ask": {"id": A1, "base": "base", "size": "100"}})),
                ex("exec", &[], json!({"reject_ask": {"id": A1, "size": "40"}})),
                ex("seller", &[], json!({"cancel_ask": {"id": A1}})),
            ],
        ),
        (
            "D2 improved final fill whose fee rounds to zero",
            world(0, 1, None, Some("0.1"), &[]),
            vec![
                ex("buyer", &[(11, "usd")], json!({"create_bid": {"id": B1, "base": "base", "fee": {"denom": "usd", "amount": "1"}, "price": "10", "quote": "usd", "quote_size": "10", "size": "1"}})),
                ex("seller", &[(1, "base")], json!({"create_ask": {"id": A1, "base": "base", "quote": "usd", "price": "4", "size": "1"}})),
                ex("exec", &[], json!({"execute_match": {"ask_id": A1, "bid_id": B1, "price": "4", "size": "1"}})),
            ],
        ),
        (
            "D3 non-lot fill then exits refused",
            world(0, 10, None, None, &[]),
            vec![
                ex("buyer", &[(40, "usd")], json!({"create_bid": {"id": B1, "base": "base", "price": "2", "quote": "usd", "quote_size": "40", "size": "20"}})),
                ex("seller", &[(20, "base")], json!({"create_ask": {"id": A1, "base": "base", "quote": "usd", "price": "2", "size": "20"}})),
                ex("exec", &[], json!({"execute_match": {"ask_id": A1, "bid_id": B1, "price": "2", "size": "15"}})),
                ex("buyer", &[], json!({"cancel_bid": {"id": B1}})),
            ],
        ),
        (
            "D4 mixed marker types on a convertible match",
            world(0, 1, None, None, &[("conv", 2), ("base", 1)]),
            vec![
                ex("seller", &[], json!({"create_ask": {"id": A1, "base": "conv", "quote": "usd", "price": "2", "size": "10"}})),
                ex("approver", &[(10, "base")], json!({"approve_ask": {"id": A1, "base": "base", "size": "10"}})),
                ex("buyer", &[(20, "usd")], json!({"create_bid": {"id": B1, "base": "base", "price": "2", "quote": "usd", "quote_size": "20", "size": "10"}})),
                ex("exec", &[], json!({"execute_match": {"ask_id": A1, "bid_id": B1, "price": "2", "size": "10"}})),
            ],
        ),
        (
            "D5 ask fee equal to the proceeds (unrestricted quote)",
            world(0, 1, Some("0.5"), None, &[]),
            vec![
                ex("buyer", &[(1, "usd")], json!({"create_bid": {"id": B1, "base": "base", "price": "1", "quote": "usd", "quote_size": "1", "size": "1"}})),
                ex("seller", &[(1, "base")], json!({"create_ask": {"id": A1, "base": "base", "quote": "usd", "price": "1", "size": "1"}})),
                ex("exec", &[], json!({"execute_match": {"ask_id": A1, "bid_id": B1, "price": "1", "size": "1"}})),
            ],
        ),
        (
            "D5b ask fee equal to the proceeds (restricted quote)",
            world(0, 1, Some("0.5"), None, &[("usd", 2)]),
            vec![
                ex("buyer", &[], json!({"create_bid": {"id": B1, "base": "base", "price": "1", "quote": "usd", "quote_size": "1", "size": "1"}})),
                ex("seller", &[(1, "base")], json!({"create_ask": {"id": A1, "base": "base", "quote": "usd", "price": "1", "size": "1"}})),
                ex("exec", &[], json!({"execute_match": {"ask_id": A1, "bid_id": B1, "price": "1", "size": "1"}})),
            ],
        ),
    ]
}

pub fn run() -> i32 {
    for (name, w, steps) in cases() {
        println!("== {}", name);
        let mut sim = Sim::new(&w, enabled_all());
        let mut all = vec![];
        all.append(&mut sim.pending);
        for (i, s) in steps.iter().enumerate() {
            let rep = sim.apply_collect(s, &mut all);
            println!(
                "   step {} {} -> {}{}",
                i + 1,
                rep.kind,
                if rep.accepted { "accepted" } else { "refused" },
                rep.refusal.as_ref().map(|r| format!(" ({})", r)).unwrap_or_default()
            );
        }
        for v in &all {
            println!("   !! step {} {:?} {} :: {}", v.step, v.props, v.signature(), v.detail);
        }
    }
    0
}
