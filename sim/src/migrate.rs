//! F9: upgrade in the middle of a live book. Old-version state (version string, event-log
//! bids) is synthesised by the harness; the migrate entry point is the real code.

use crate::book::{self, bid_key, classify, BidM, KeyClass};
use crate::chain::Outcome;
use crate::model::{self, MigExpect, VersionClass};
use crate::rng::{Fnv, Rng};
use crate::sim::{Sim, StepReport};
use serde_json::{json, Value};

/// Rewrite a current-format bid into the old event-log format. The consumed amounts are split
/// into a seeded list of Fill / Refund / Reject events whose sums are known by construction.
pub fn to_event_log(b: &BidM, seed: u64, height: u64) -> Value {
    let mut h = Fnv::new();
    h.str(&b.id).u64(seed);
    let mut rng = Rng::new(h.finish());
    let (bb, qq, ff) = (b.acc_base, b.acc_quote, b.acc_fee);
    let mut events: Vec<Value> = vec![];
    if bb > 0 || qq > 0 || ff > 0 || rng.chance(0.2) {
        let n = 1 + rng.below(5) as usize;
        // kinds: 0 fill, 1 refund, 2 reject
        let mut kinds: Vec<u8> = (0..n).map(|_| rng.below(3) as u8).collect();
        if bb > 0 && !kinds.iter().any(|k| *k != 1) {
            kinds[0] = if rng.chance(0.5) { 0 } else { 2 };
        }
        let split = |total: u128, slots: usize, rng: &mut Rng| -> Vec<u128> {
            let mut v = vec![0u128; slots];
            if slots == 0 {
                return v;
            }
            let mut left = total;
            for i in 0..slots {
                if i == slots - 1 {
                    v[i] = left;
                } else {
                    let take = if left == 0 {
                        0
                    } else {
                        match rng.below(4) {
                            0 => 0,
                            1 => left,
                            _ => (rng.next() as u128 * 0x1_0000_0000 + rng.next() as u128) % (left + 1),
                        }
                    };
                    v[i] = take;
                    left -= take;
                }
            }
            rng.shuffle(&mut v);
            v
        };
        let base_slots: Vec<usize> = kinds.iter().enumerate().filter(|(_, k)| **k != 1).map(|(i, _)| i).collect();
        let bparts = split(bb, base_slots.len(), &mut rng);
        let qparts = split(qq, n, &mut rng);
        let fparts = split(ff, n, &mut rng);
        for i in 0..n {
            let fee = if fparts[i] > 0 || (b.fee.is_some() && rng.chance(0.3)) {
                json!({"denom": b.quote_denom, "amount": fparts[i].to_string()})
            } else {
                Value::Null
            };
            let quote = json!({"denom": b.quote_denom, "amount": qparts[i].to_string()});
            let bi = base_slots.iter().position(|x| *x == i);
            let base = bi.map(|j| json!({"denom": b.base_denom, "amount": bparts[j].to_string()}));
            let action = match kinds[i] {
                0 => json!({"Fill": {"base": base.unwrap(), "fee": fee, "price": b.price, "quote": quote}}),
                1 => json!({"Refund": {"fee": fee, "quote": quote}}),
                _ => json!({"Reject": {"base": base.unwrap(), "fee": fee, "quote": quote}}),
            };
            events.push(json!({
                "action": action,
                "block_info": {"height": height.saturating_sub(rng.below(50)), "time": (1_600_000_000_000_000_000u64 + rng.below(1_000_000)).to_string()}
            }));
        }
    }
    // identical consecutive events (same amounts, same block) are legitimate history: split some
    let mut events2: Vec<Value> = vec![];
    for e in events {
        let mut split = None;
        if rng.chance(0.35) {
            if let Some((kind, body)) = e["action"].as_object().and_then(|o| o.iter().next()) {
                let amt = |v: &Value| v.get("amount").and_then(|a| a.as_str()).and_then(|a| a.parse::<u128>().ok());
                let parts: Vec<Option<u128>> = vec![body.get("base").and_then(amt), body.get("quote").and_then(amt), body.get("fee").and_then(amt)];
                let all_even = parts.iter().flatten().all(|x| x % 2 == 0);
                let any = parts.iter().flatten().any(|x| *x > 0);
                if all_even && any {
                    let mut half = body.clone();
                    for k in ["base", "quote", "fee"] {
                        if let Some(a) = body.get(k).and_then(amt) {
                            half[k]["amount"] = json!((a / 2).to_string());
                        }
                    }
                    let mut act = serde_json::Map::new();
                    act.insert(kind.clone(), half);
                    split = Some(json!({"action": Value::Object(act), "block_info": e["block_info"].clone()}));
                }
            }
        }
        match split {
            Some(h) => {
                events2.push(h.clone());
                events2.push(h);
            }
            None => events2.push(e),
        }
    }
    let events = events2;
    json!({
        "base": {"denom": b.base_denom, "amount": b.base_amount.to_string()},
        "events": events,
        "fee": match &b.fee { Some((d, a)) => json!({"denom": d, "amount": a.to_string()}), None => Value::Null },
        "id": b.id,
        "owner": b.owner,
        "price": b.price,
        "quote": {"denom": b.quote_denom, "amount": b.quote_amount.to_string()},
    })
}

#[allow(clippy::too_many_arguments)]
pub fn migrate_step(
    sim: &mut Sim,
    set_version: &Option<String>,
    msg: &Value,
    v2_ids: &[String],
    v2_seed: u64,
    twice: bool,
    twin: bool,
) -> StepReport {
    let kind = "migrate";
    sim.cov.fault("F9_upgrade");
    let pre = sim.chain.storage.data.clone();
    let book_pre = sim.book.clone();
    let cfg_pre = sim.cfg.clone();
    sim.twin = None;
    sim.prev_op = None;

    if set_version.as_deref() == Some("<absent>") {
        sim.chain.storage.data.remove(b"version_info".as_slice());
    } else if let Some(v) = set_version.as_deref().and_then(|v| v.strip_prefix("<nodef>")) {
        // a record that lacks a field the format requires is unreadable
        sim.chain.storage.data.insert(b"version_info".to_vec(), serde_json::to_vec(&json!({"version": v})).unwrap());
    } else if set_version.as_deref() == Some("<garbage>") {
        sim.chain.storage.data.insert(b"version_info".to_vec(), b"{not json".to_vec());
    } else if let Some(v) = set_version {
        // older deployments wrote other definition strings; the version is what gates a migration
        let alt_def: Option<&str> = match v2_seed % 7 {
            0 => Some("ats-smart-contract"),
            1 => Some("def"),
            _ => None,
        };
        let def = book::read_version(&sim.chain.storage)
            .map(|x| x.0)
            .unwrap_or_else(|| "ats_smart_contract".to_string());
        let def = alt_def.map(|d| d.to_string()).unwrap_or(def);
        sim.chain.storage.data.insert(
            b"version_info".to_vec(),
            serde_json::to_vec(&json!({"definition": def, "version": v})).unwrap(),
        );
    }
    let stored_version = book::read_version(&sim.chain.storage).map(|x| x.1);
    let vclass = stored_version.as_deref().map(model::version_class);
    let in_window = matches!(vclass, Some(VersionClass::Triple(a, b, c)) if (a, b, c) >= (0, 16, 2) && (a, b, c) < (0, 19, 1));
    let band = match vclass {
        None => "no_version",
        Some(VersionClass::Malformed) => "malformed",
        Some(VersionClass::PreOrBuild) => "prerelease",
        Some(VersionClass::PreReleaseBelowMin) => "prerelease_below_minimum",
        Some(VersionClass::Triple(a, b, c)) => {
            if (a, b, c) < (0, 16, 2) {
                "below_minimum"
            } else if (a, b, c) < (0, 19, 1) {
                "event_log_window"
            } else {
                "current_format"
            }
        }
    };
    if band == "no_version" {
        sim.cov.probe("migrate_without_readable_version_record");
    }
    match band {
        "below_minimum" => sim.cov.probe("migrate_from_below_minimum"),
        "event_log_window" => sim.cov.probe("migrate_from_event_log_window"),
        "current_format" => sim.cov.probe("migrate_from_current_format"),
        "malformed" => sim.cov.probe("migrate_from_malformed_version"),
        _ => {}
    }

    // rewrite selected bids into the event-log format
    let mut rewritten: Vec<String> = vec![];
    if in_window {
        for id in v2_ids {
            if let Some(b) = book_pre.bids.get(id) {
                if b.v2 {
                    continue;
                }
                let v = to_event_log(b, v2_seed, sim.chain.height);
                // the harness's own reading of what it wrote must agree with the bid (exit 2 otherwise)
                let back = book::decode_bid_value(&v).expect("harness wrote an undecodable event-log bid");
                assert!(
                    back.acc_base == b.acc_base && back.acc_quote == b.acc_quote && back.acc_fee == b.acc_fee,
                    "harness event-log sums inconsistent"
                );
                sim.chain.storage.data.insert(bid_key(id), serde_json::to_vec(&v).unwrap());
                rewritten.push(id.clone());
                let nev = v["events"].as_array().map(|a| a.len()).unwrap_or(0);
                let mut h = Fnv::new();
                h.str("v2").u64(nev as u64).u128(b.acc_base).u128(b.acc_quote).u128(b.acc_fee).u64(b.fee.is_some() as u64);
                sim.cov.hit("C15", h.finish(), true);
            }
        }
        if !rewritten.is_empty() && rewritten.len() < book_pre.bids.len() {
            sim.cov.probe("mixed_old_and_new_format_bids");
        }
    }
    if sim.enabled[crate::types::prop_index("C16").unwrap()] {
        // state as an un-migrated deployment would present it: the version query must report
        // exactly the stored (old / unreadable) record
        crate::probes::probe_query_singletons(sim);
        sim.cov.probe("version_query_on_unmigrated_state");
        // an order the current code cannot read may be refused, never misreported
        for id in &rewritten {
            if let Ok(g) = sim.chain.query(&json!({"get_bid": {"id": id}})) {
                if let (Ok(got), Some(want)) = (book::decode_bid_value(&g), book_pre.bids.get(id)) {
                    if got.unfilled() != want.unfilled() || got.unspent_quote() != want.unspent_quote() || got.unspent_fee() != want.unspent_fee() {
                        sim.flag(
                            &["C16"],
                            "P-query.old_format_bid_misreported",
                            "query",
                            "",
                            format!("get_bid on event-log bid {} reports remaining {}/{}/{} but {}/{}/{} remain", id, got.unfilled(), got.unspent_quote(), got.unspent_fee(), want.unfilled(), want.unspent_quote(), want.unspent_fee()),
                        );
                    }
                }
            }
        }
    }
    let after_rewrite = sim.chain.storage.data.clone();
    let exp = model::expect_migrate(stored_version.as_deref(), msg, &cfg_pre);
    let out = sim.chain.migrate(msg);
    let accepted = out.is_accepted();
    {
        let e = sim.cov.kinds.entry(kind.to_string()).or_insert([0; 3]);
        e[0] += 1;
        if accepted { e[1] += 1 } else { e[2] += 1 }
    }
    let mut h = Fnv::new();
    h.str(band).str(&msg.to_string()).u64(accepted as u64).u64(book_pre.asks.len().min(3) as u64).u64(book_pre.bids.len().min(3) as u64).u64(rewritten.len().min(3) as u64);
    sim.cov.hit("C14", h.finish(), true);

    match (&exp, accepted) {
        (MigExpect::Refuse(r), true) => sim.flag(
            &["C14"],
            "L2.migrate.accepted_but_must_refuse",
            kind,
            r,
            format!("migration from stored version {:?} accepted ({})", stored_version, r),
        ),
        (MigExpect::Accept { .. }, false) => {
            let t = match &out { Outcome::Refused(r) => r.text(), _ => String::new() };
            sim.flag(
                &["C14"],
                "L2.migrate.refused_but_supported",
                kind,
                band,
                format!("migration from supported version {:?} refused: {}", stored_version, t),
            )
        }
        (MigExpect::DontCare(r), acc) => {
            *sim.cov.dontcare.entry(r).or_insert(0) += 1;
            if acc && *r == "invalid_override" {
                // an override that cannot be applied as a fee / address may be refused; if the
                // migration goes through, the field is either untouched or installed as written -
                // anything else is a change nobody requested
                if let Ok(after) = book::read_cfg(&sim.chain.storage) {
                    let o = msg.as_object().cloned().unwrap_or_default();
                    let gs = |k: &str| o.get(k).and_then(|v| v.as_str()).map(|x| x.to_string());
                    let gl = |k: &str| -> Option<Vec<String>> {
                        o.get(k).and_then(|v| v.as_array()).map(|a| a.iter().filter_map(|e| e.as_str().map(|x| x.to_string())).collect())
                    };
                    // the lists: omitted ones keep their value, supplied ones are installed exactly as
                    // written (a list that was quietly filtered, or ignored, is not what was requested)
                    for (field, pre, post) in [
                        ("approvers", &cfg_pre.approvers, &after.approvers),
                        ("ask_required_attributes", &cfg_pre.ask_attrs, &after.ask_attrs),
                        ("bid_required_attributes", &cfg_pre.bid_attrs, &after.bid_attrs),
                    ] {
                        let ok = match gl(field) {
                            None => post == pre,
                            Some(req) => *post == req,
                        };
                        if !ok {
                            sim.flag(
                                &["C14"],
                                "C14.config_overrides",
                                kind,
                                "invalid_override",
                                format!("{} after migration is {:?}; before {:?}, requested {:?}", field, post, pre, gl(field)),
                            );
                        }
                    }
                    for (side, pre, post) in [("ask", &cfg_pre.ask_fee, &after.ask_fee), ("bid", &cfg_pre.bid_fee, &after.bid_fee)] {
                        let rate = gs(&format!("{}_fee_rate", side));
                        let acct = gs(&format!("{}_fee_account", side));
                        let verdict = model::fee_pair(&rate, &acct);
                        let allowed: Vec<Option<crate::book::FeeCfg>> = match verdict {
                            model::PairVerdict::NotSupplied | model::PairVerdict::Half => vec![pre.clone()],
                            model::PairVerdict::Clear => vec![None],
                            model::PairVerdict::Install(f) => vec![Some(f)],
                            model::PairVerdict::BadRate | model::PairVerdict::OddRate => vec![
                                pre.clone(),
                                Some(crate::book::FeeCfg { account: acct.clone().unwrap_or_default(), rate: rate.clone().unwrap_or_default() }),
                            ],
                            model::PairVerdict::BadAccount(f) => vec![pre.clone(), Some(f)],
                        };
                        if !allowed.contains(post) {
                            sim.flag(
                                &["C14"],
                                "C14.config_overrides",
                                kind,
                                "invalid_override",
                                format!("{} fee after migration is {:?}; requested pair ({:?}, {:?}) allows only {:?}", side, post, rate, acct, allowed),
                            );
                        }
                    }
                }
            }
        }
        _ => {}
    }

    if !accepted {
        if sim.chain.storage.data != after_rewrite {
            sim.flag(&["C14"], "L2.migrate.refused_changed_state", kind, band, "refused migration changed storage".into());
        }
        // the upgrade attempt is abandoned: continue from the state before the harness's rewrites
        sim.chain.storage.data = pre;
        return report(sim, kind, false);
    }

    // ---- accepted: compare whole storage
    let post = sim.chain.storage.data.clone();
    for (k, v) in &after_rewrite {
        let (c, id) = classify(k);
        match c {
            KeyClass::Ask => {
                if post.get(k) != Some(v) {
                    sim.flag(&["C14"], "C14.ask_changed", kind, band, format!("ask {} changed by migration", id));
                }
            }
            KeyClass::Bid => {
                if !post.contains_key(k) {
                    sim.flag(&["C15", "C14"], "C15.bid_lost", kind, band, format!("bid {} lost in migration", id));
                } else if !rewritten.contains(&id) && post.get(k) != Some(v) {
                    sim.flag(
                        &["C15"],
                        "C15.current_format_bid_rewritten",
                        kind,
                        band,
                        format!("bid {} was already in the current format but was rewritten", id),
                    );
                }
            }
            KeyClass::Singleton => {
                if id != "contract_info" && id != "version_info" && post.get(k) != Some(v) {
                    sim.flag(&["C14"], "C14.other_state_changed", kind, band, format!("entry {} changed", id));
                }
            }
        }
    }
    for k in post.keys() {
        if !after_rewrite.contains_key(k) {
            let (c, id) = classify(k);
            let p = if c == KeyClass::Bid { "C15" } else { "C14" };
            sim.flag(&[p], "C14.entry_invented", kind, band, format!("entry {:?} {} invented by migration", c, id));
        }
    }
    match book::scan_book(&sim.chain.storage) {
        Ok(bk) => {
            for id in &rewritten {
                let want = &book_pre.bids[id];
                match bk.bids.get(id) {
                    Some(got) => {
                        if got.v2 {
                            sim.flag(&["C15", "C14", "C11"], "C15.not_converted", kind, band, format!("event-log bid {} was not converted: the book is not preserved", id));
                        } else if got != want {
                            let q = if got.unfilled() != want.unfilled() {
                                "remaining_base"
                            } else if got.unspent_quote() != want.unspent_quote() {
                                "remaining_quote"
                            } else if got.unspent_fee() != want.unspent_fee() {
                                "remaining_fee"
                            } else {
                                "other_field"
                            };
                            sim.flag(
                                &["C15"],
                                "C15.converted_bid_differs",
                                kind,
                                q,
                                format!("bid {} after conversion {:?}, before the rewrite {:?}", id, got, want),
                            );
                        }
                    }
                    None => {}
                }
            }
            sim.book = bk;
        }
        Err(e) => sim.flag(&["C15"], "C15.undecodable", kind, band, format!("book undecodable after migration: {}", e.0)),
    }
    match book::read_cfg(&sim.chain.storage) {
        Ok(c) => {
            if let MigExpect::Accept { cfg_after, .. } = &exp {
                if &c != cfg_after {
                    sim.flag(
                        &["C14"],
                        "C14.config_overrides",
                        kind,
                        band,
                        format!("configuration after migration {:?}, expected exactly the overrides: {:?}", c, cfg_after),
                    );
                }
            }
            sim.cfg = c;
        }
        Err(e) => sim.flag(&["C14"], "C14.config_unreadable", kind, band, e.0),
    }
    let ver = book::read_version(&sim.chain.storage);
    let want_v = (
        ats_smart_contract::version_info::CRATE_NAME.to_string(),
        ats_smart_contract::version_info::PACKAGE_VERSION.to_string(),
    );
    if ver.as_ref().map(|v| &v.1) != Some(&want_v.1) {
        sim.flag(&["C14"], "C14.version_not_stamped", kind, band, format!("version record after migration: {:?}", ver));
    }
    if let Outcome::Accepted(a) = &out {
        if !a.xfers.is_empty() {
            sim.flag(&["C14", "C10"], "C14.messages", kind, band, "migration emitted fund movements".into());
        }
    }
    // second, identical migration
    if twice {
        let s1 = sim.chain.storage.data.clone();
        let out2 = sim.chain.migrate(msg);
        sim.cov.fault("F3_duplicate_migrate");
        if matches!(exp, MigExpect::Accept { .. }) {
            if !out2.is_accepted() {
                sim.flag(&["C14"], "C14.second_migration_refused", kind, band, "identical second migration refused".into());
            } else if sim.chain.storage.data != s1 {
                sim.flag(&["C14"], "C14.not_idempotent", kind, band, "identical second migration changed storage".into());
            }
        }
        sim.chain.storage.data = s1;
    }
    // twin: the same migration on a book that never left the current format
    if twin {
        let mut t = sim.chain.clone();
        t.storage.data = pre.clone();
        if let Some(v) = t.storage.data.get(b"version_info".as_slice()).cloned() {
            let _ = v;
        }
        if let Some(sv) = &stored_version {
            let def = want_v.0.clone();
            t.storage.data.insert(
                b"version_info".to_vec(),
                serde_json::to_vec(&json!({"definition": def, "version": sv})).unwrap(),
            );
        }
        if t.migrate(msg).is_accepted() {
            match (book::scan_book(&t.storage), book::scan_book(&sim.chain.storage)) {
                (Ok(a), Ok(b)) => {
                    if a != b {
                        sim.flag(&["C15"], "C15.twin_book_divergence", kind, band, "migrated book differs from never-converted twin".into());
                    } else {
                        sim.twin = Some(Box::new(t));
                    }
                }
                _ => {}
            }
        }
    }
    // migrations may legitimately change rates: restart the C12 relational record
    sim.frozen_ask_rate = None;
    sim.frozen_bid_rate = None;
    let b0 = sim.book.clone();
    sim.track_freeze(&b0);
    sim.wellformed(kind, &[], &[]);
    // solvency must be untouched by an upgrade
    let owed = book::owed_total(&sim.book);
    let held: std::collections::BTreeMap<String, u128> = sim
        .chain
        .contract_balances()
        .into_iter()
        .map(|(d, v)| (d, v.max(0) as u128))
        .collect();
    if owed != held {
        sim.flag(
            &["C01", "C15"],
            "I-solv.after_migration",
            kind,
            band,
            format!("after migration the contract holds {:?} but open orders are owed {:?}", held, owed),
        );
    }
    let _ = cfg_pre;
    report(sim, kind, true)
}

fn report(sim: &Sim, kind: &str, accepted: bool) -> StepReport {
    let mut h = Fnv::new();
    h.str(kind).u64(accepted as u64);
    for (k, v) in &sim.chain.storage.data {
        h.bytes(k).bytes(v);
    }
    StepReport {
        kind: kind.to_string(),
        accepted,
        refusal: None,
        attrs: vec![],
        sender: String::new(),
        tags: vec![],
        event_hash: h.finish(),
    }
}
