mod book;
mod chain;
mod dec;
mod migrate;
mod model;
mod probes;
mod rng;
mod seams;
mod selftest;
mod sim;
mod types;

fn main() {
    chain::install_quiet_panic_hook();
    let args: Vec<String> = std::env::args().collect();
    let cmd = args.get(1).map(|s| s.as_str()).unwrap_or("help");
    let code = match cmd {
        "selftest" => selftest::run(),
        _ => {
            eprintln!("usage: dsim selftest | check <ID> ... | replay <file>");
            2
        }
    };
    std::process::exit(code);
}
