mod book;
mod chain;
mod dec;
mod gen;
mod migrate;
mod model;
mod probes;
mod rng;
mod runner;
mod seams;
mod selftest;
mod sim;
mod types;

fn arg<'a>(args: &'a [String], name: &str) -> Option<&'a str> {
    args.iter().position(|a| a == name).and_then(|i| args.get(i + 1)).map(|s| s.as_str())
}

fn default_runs(prop: &str, tier: &str) -> u64 {
    let quick: u64 = match prop {
        "C05" => 5000,
        "C06" => 20000,
        "C16" => 15000,
        "C13" => 300000,
        "C15" => 30000,
        "C09" => 30000,
        "C11" => 30000,
        _ => 40000,
    };
    if tier == "thorough" {
        quick * 20
    } else {
        quick
    }
}

fn main() {
    chain::install_quiet_panic_hook();
    let args: Vec<String> = std::env::args().collect();
    let cmd = args.get(1).map(|s| s.as_str()).unwrap_or("help");
    let code = match cmd {
        "selftest" => selftest::run(),
        "check" => {
            let prop = args.get(2).cloned().unwrap_or_default();
            if types::prop_index(&prop).is_none() {
                eprintln!("HARNESS-ERROR: unknown property {}", prop);
                std::process::exit(2);
            }
            let tier = arg(&args, "--tier").unwrap_or("quick").to_string();
            let seed = arg(&args, "--seed")
                .map(|s| s.to_string())
                .or_else(|| std::env::var("VERIF_SEED").ok())
                .and_then(|s| s.parse::<u64>().ok())
                .unwrap_or(20261001);
            let runs = arg(&args, "--runs").and_then(|s| s.parse().ok()).unwrap_or_else(|| default_runs(&prop, &tier));
            let jobs = arg(&args, "--jobs")
                .and_then(|s| s.parse().ok())
                .unwrap_or_else(|| std::thread::available_parallelism().map(|n| n.get()).unwrap_or(4));
            let o = runner::CheckOpts {
                evidence: arg(&args, "--evidence").map(|s| s.to_string()).unwrap_or(format!("/verif/evidence/{}.json", prop)),
                known: arg(&args, "--known").unwrap_or("/verif/known_findings.json").to_string(),
                replay_dir: arg(&args, "--replays").unwrap_or("/verif/replays").to_string(),
                wall_cap_s: arg(&args, "--cap").and_then(|s| s.parse().ok()).unwrap_or(if tier == "thorough" { 1500.0 } else { 240.0 }),
                profile: arg(&args, "--profile").map(|s| s.to_string()),
                prop,
                tier,
                seed,
                runs,
                jobs,
            };
            println!("VERIF_SEED={} property={} tier={} runs={} jobs={}", o.seed, o.prop, o.tier, o.runs, o.jobs);
            runner::check(&o)
        }
        "replay" => {
            let path = args.get(2).cloned().unwrap_or_default();
            runner::replay_file(&path, args.iter().any(|a| a == "--quiet"))
        }
        "tags" => {
            let profiles: Vec<String> = args.get(2).map(|s| s.split(',').map(|x| x.to_string()).collect()).unwrap_or_default();
            let seed = arg(&args, "--seed").and_then(|s| s.parse().ok()).unwrap_or(20261001);
            let runs = arg(&args, "--runs").and_then(|s| s.parse().ok()).unwrap_or(3000);
            let jobs = arg(&args, "--jobs")
                .and_then(|s| s.parse().ok())
                .unwrap_or_else(|| std::thread::available_parallelism().map(|n| n.get()).unwrap_or(4));
            runner::tags(&profiles, seed, runs, jobs)
        }
        "determinism" => {
            let prop = args.get(2).cloned().unwrap_or("C01".into());
            let seed = arg(&args, "--seed").and_then(|s| s.parse().ok()).unwrap_or(1);
            let runs = arg(&args, "--runs").and_then(|s| s.parse().ok()).unwrap_or(200);
            let jobs = arg(&args, "--jobs").and_then(|s| s.parse().ok()).unwrap_or(1);
            runner::determinism(&prop, seed, runs, jobs)
        }
        _ => {
            eprintln!("usage: dsim selftest | check <ID> [--tier T --seed S --runs N --jobs J] | replay <file> | determinism <ID> --seed S --runs N --jobs J");
            2
        }
    };
    std::process::exit(code);
}
