//! Reference model: a small executable specification written from the property statements
//! (DESIGN Appendix A). It judges each request against the decoded *pre-state* (refinement
//! mapping: decode(storage) -> abstract book), so every subsequence of a history is a history.
//!
//! Directions follow the statements: `Refuse` is only produced when a condition the statements
//! make necessary fails; `Accept{must:true}` only where a statement demands the converse.

use crate::book::{AskClass, AskM, BidM, Book, Cfg, FeeCfg};
use crate::chain::{CoinS, Mech};
use crate::dec::{self, div_half_up, is_half_tie, pow10, to_u128, u, Dec, Parsed, U};
use crate::seams::{addr_ok, Served};
use serde_json::Value;
use std::collections::BTreeMap;

// ------------------------------------------------------------------ requests

#[derive(Clone, Debug, PartialEq)]
pub enum Req {
    CreateAsk {
        id: String,
        base: String,
        quote: String,
        price: String,
        size: u128,
    },
    CreateBid {
        id: String,
        base: String,
        fee: Option<(String, u128)>,
        price: String,
        quote: String,
        quote_size: u128,
        size: u128,
    },
    ApproveAsk {
        id: String,
        base: String,
        size: u128,
    },
    CancelAsk {
        id: String,
    },
    CancelBid {
        id: String,
    },
    ExpireAsk {
        id: String,
    },
    ExpireBid {
        id: String,
    },
    RejectAsk {
        id: String,
        size: Option<u128>,
    },
    RejectBid {
        id: String,
        size: Option<u128>,
    },
    ExecuteMatch {
        ask_id: String,
        bid_id: String,
        price: String,
        size: u128,
    },
    ModifyContract(ModifyReq),
    /// not the wire shape of any request (wrong type, missing field, unknown variant)
    Malformed,
    /// a shape on which the model abstains (e.g. integers spelled with '+')
    Unknown,
}

#[derive(Clone, Debug, PartialEq, Default)]
pub struct ModifyReq {
    pub approvers: Option<Vec<String>>,
    pub executors: Option<Vec<String>>,
    pub ask_fee_rate: Option<String>,
    pub ask_fee_account: Option<String>,
    pub bid_fee_rate: Option<String>,
    pub bid_fee_account: Option<String>,
    pub ask_attrs: Option<Vec<String>>,
    pub bid_attrs: Option<Vec<String>>,
}

impl Req {
    pub fn kind(&self) -> &'static str {
        match self {
            Req::CreateAsk { .. } => "create_ask",
            Req::CreateBid { .. } => "create_bid",
            Req::ApproveAsk { .. } => "approve_ask",
            Req::CancelAsk { .. } => "cancel_ask",
            Req::CancelBid { .. } => "cancel_bid",
            Req::ExpireAsk { .. } => "expire_ask",
            Req::ExpireBid { .. } => "expire_bid",
            Req::RejectAsk { .. } => "reject_ask",
            Req::RejectBid { .. } => "reject_bid",
            Req::ExecuteMatch { .. } => "execute_match",
            Req::ModifyContract(_) => "modify_contract",
            Req::Malformed => "malformed",
            Req::Unknown => "unknown",
        }
    }
    /// the orders a request names: (ask ids, bid ids)
    pub fn named(&self) -> (Vec<String>, Vec<String>) {
        match self {
            Req::CreateAsk { id, .. }
            | Req::ApproveAsk { id, .. }
            | Req::CancelAsk { id }
            | Req::ExpireAsk { id }
            | Req::RejectAsk { id, .. } => (vec![id.clone()], vec![]),
            Req::CreateBid { id, .. }
            | Req::CancelBid { id }
            | Req::ExpireBid { id }
            | Req::RejectBid { id, .. } => (vec![], vec![id.clone()]),
            Req::ExecuteMatch { ask_id, bid_id, .. } => (vec![ask_id.clone()], vec![bid_id.clone()]),
            _ => (vec![], vec![]),
        }
    }
}

enum F<T> {
    Ok(T),
    Bad,
    Unknown,
}

fn f_str(o: &serde_json::Map<String, Value>, k: &str) -> F<String> {
    match o.get(k) {
        Some(Value::String(s)) => F::Ok(s.clone()),
        _ => F::Bad,
    }
}
fn f_u128(o: &serde_json::Map<String, Value>, k: &str) -> F<u128> {
    match o.get(k) {
        Some(Value::String(s)) => parse_u128(s),
        _ => F::Bad,
    }
}
fn parse_u128(s: &str) -> F<u128> {
    if !s.is_empty() && s.bytes().all(|b| b.is_ascii_digit()) {
        match s.parse::<u128>() {
            Ok(v) => F::Ok(v),
            Err(_) => F::Bad,
        }
    } else if s.starts_with('+') {
        F::Unknown
    } else {
        F::Bad
    }
}
fn f_opt_u128(o: &serde_json::Map<String, Value>, k: &str) -> F<Option<u128>> {
    match o.get(k) {
        None | Some(Value::Null) => F::Ok(None),
        Some(Value::String(s)) => match parse_u128(s) {
            F::Ok(v) => F::Ok(Some(v)),
            F::Bad => F::Bad,
            F::Unknown => F::Unknown,
        },
        _ => F::Bad,
    }
}
fn f_opt_str(o: &serde_json::Map<String, Value>, k: &str) -> F<Option<String>> {
    match o.get(k) {
        None | Some(Value::Null) => F::Ok(None),
        Some(Value::String(s)) => F::Ok(Some(s.clone())),
        _ => F::Bad,
    }
}
fn f_opt_list(o: &serde_json::Map<String, Value>, k: &str) -> F<Option<Vec<String>>> {
    match o.get(k) {
        None | Some(Value::Null) => F::Ok(None),
        Some(Value::Array(a)) => {
            let mut v = vec![];
            for e in a {
                match e {
                    Value::String(s) => v.push(s.clone()),
                    _ => return F::Bad,
                }
            }
            F::Ok(Some(v))
        }
        _ => F::Bad,
    }
}
fn f_list(o: &serde_json::Map<String, Value>, k: &str) -> F<Vec<String>> {
    match f_opt_list(o, k) {
        F::Ok(Some(v)) => F::Ok(v),
        F::Ok(None) => F::Bad,
        F::Bad => F::Bad,
        F::Unknown => F::Unknown,
    }
}

macro_rules! get {
    ($e:expr) => {
        match $e {
            F::Ok(v) => v,
            F::Bad => return Req::Malformed,
            F::Unknown => return Req::Unknown,
        }
    };
}

/// The model's own reading of the wire format (per /repo/schema).
pub fn parse_req(msg: &Value) -> Req {
    let top = match msg.as_object() {
        Some(o) if o.len() == 1 => o,
        _ => return Req::Malformed,
    };
    let (k, body) = top.iter().next().unwrap();
    let o = match body.as_object() {
        Some(o) => o,
        None => return Req::Malformed,
    };
    match k.as_str() {
        "create_ask" => Req::CreateAsk {
            id: get!(f_str(o, "id")),
            base: get!(f_str(o, "base")),
            quote: get!(f_str(o, "quote")),
            price: get!(f_str(o, "price")),
            size: get!(f_u128(o, "size")),
        },
        "create_bid" => {
            let fee = match o.get("fee") {
                None | Some(Value::Null) => None,
                Some(Value::Object(f)) => Some((get!(f_str(f, "denom")), get!(f_u128(f, "amount")))),
                _ => return Req::Malformed,
            };
            Req::CreateBid {
                id: get!(f_str(o, "id")),
                base: get!(f_str(o, "base")),
                fee,
                price: get!(f_str(o, "price")),
                quote: get!(f_str(o, "quote")),
                quote_size: get!(f_u128(o, "quote_size")),
                size: get!(f_u128(o, "size")),
            }
        }
        "approve_ask" => Req::ApproveAsk {
            id: get!(f_str(o, "id")),
            base: get!(f_str(o, "base")),
            size: get!(f_u128(o, "size")),
        },
        "cancel_ask" => Req::CancelAsk {
            id: get!(f_str(o, "id")),
        },
        "cancel_bid" => Req::CancelBid {
            id: get!(f_str(o, "id")),
        },
        "expire_ask" => Req::ExpireAsk {
            id: get!(f_str(o, "id")),
        },
        "expire_bid" => Req::ExpireBid {
            id: get!(f_str(o, "id")),
        },
        "reject_ask" => Req::RejectAsk {
            id: get!(f_str(o, "id")),
            size: get!(f_opt_u128(o, "size")),
        },
        "reject_bid" => Req::RejectBid {
            id: get!(f_str(o, "id")),
            size: get!(f_opt_u128(o, "size")),
        },
        "execute_match" => Req::ExecuteMatch {
            ask_id: get!(f_str(o, "ask_id")),
            bid_id: get!(f_str(o, "bid_id")),
            price: get!(f_str(o, "price")),
            size: get!(f_u128(o, "size")),
        },
        "modify_contract" => Req::ModifyContract(ModifyReq {
            approvers: get!(f_opt_list(o, "approvers")),
            executors: get!(f_opt_list(o, "executors")),
            ask_fee_rate: get!(f_opt_str(o, "ask_fee_rate")),
            ask_fee_account: get!(f_opt_str(o, "ask_fee_account")),
            bid_fee_rate: get!(f_opt_str(o, "bid_fee_rate")),
            bid_fee_account: get!(f_opt_str(o, "bid_fee_account")),
            ask_attrs: get!(f_opt_list(o, "ask_required_attributes")),
            bid_attrs: get!(f_opt_list(o, "bid_required_attributes")),
        }),
        _ => Req::Malformed,
    }
}

// ------------------------------------------------------------------ ids

#[derive(Clone, Copy, Debug, PartialEq)]
pub enum IdClass {
    Canonical,
    Legacy,
    /// other spellings a UUID parser may accept (upper case, braces, urn:) - never generated for create
    OtherUuid,
    NotUuid,
}

pub fn id_class(s: &str) -> IdClass {
    let lower_hex = |c: u8| c.is_ascii_digit() || (b'a'..=b'f').contains(&c);
    let any_hex = |c: u8| c.is_ascii_hexdigit();
    let b = s.as_bytes();
    if b.len() == 36 {
        let hy = |i: usize| i == 8 || i == 13 || i == 18 || i == 23;
        if b.iter().enumerate().all(|(i, c)| if hy(i) { *c == b'-' } else { lower_hex(*c) }) {
            return IdClass::Canonical;
        }
        if b.iter().enumerate().all(|(i, c)| if hy(i) { *c == b'-' } else { any_hex(*c) }) {
            return IdClass::OtherUuid;
        }
        return IdClass::NotUuid;
    }
    if b.len() == 32 {
        if b.iter().all(|c| lower_hex(*c)) {
            return IdClass::Legacy;
        }
        if b.iter().all(|c| any_hex(*c)) {
            return IdClass::OtherUuid;
        }
        return IdClass::NotUuid;
    }
    if s.starts_with("urn:uuid:") || (s.starts_with('{') && s.ends_with('}')) {
        return IdClass::OtherUuid;
    }
    IdClass::NotUuid
}

// ------------------------------------------------------------------ expectations

#[derive(Clone, Debug, PartialEq)]
pub struct ExpXfer {
    pub from: String,
    pub to: String,
    pub denom: String,
    pub amount: u128,
    pub mech: Mech,
}

#[derive(Clone, Debug, PartialEq)]
pub enum AttrExp {
    Exact(String),
    /// value must parse as a decimal numerically equal to this one
    Numeric(String),
}

#[derive(Clone, Debug, Default, PartialEq)]
pub struct Effects {
    pub xfers: Vec<ExpXfer>,
    pub asks: Vec<(String, Option<AskM>)>,
    pub bids: Vec<(String, Option<BidM>)>,
    pub cfg_after: Option<Cfg>,
    pub attrs: Vec<(String, AttrExp)>,
    /// qualifiers describing the case (coverage cells)
    pub tags: Vec<&'static str>,
    /// components for per-property checks
    pub ask_fee: u128,
    pub bid_fee: u128,
}

#[derive(Clone, Debug, PartialEq)]
pub enum Expect {
    Accept { alts: Vec<Effects>, must: bool },
    Refuse { reason: &'static str },
    DontCare { reason: &'static str },
}

pub struct Ctx<'a> {
    pub cfg: &'a Cfg,
    pub book: &'a Book,
    pub contract: &'a str,
    pub sender: &'a str,
    pub funds: &'a [CoinS],
    /// marker table at the time of the transaction
    pub markers: &'a BTreeMap<String, u8>,
    pub attrs: &'a BTreeMap<String, Vec<String>>,
    /// answers actually served during the call (empty when judging before the call)
    pub served: &'a [Served],
}

impl<'a> Ctx<'a> {
    /// restricted(d): the answer served in this transaction, else what the table would serve
    pub fn restricted(&self, denom: &str) -> bool {
        for s in self.served {
            if let Served::Marker {
                denom: d,
                restricted,
                ..
            } = s
            {
                if d == denom {
                    return *restricted;
                }
            }
        }
        self.markers.get(denom).copied().unwrap_or(0) == 2
    }
    pub fn marker_query_failed(&self) -> bool {
        self.served
            .iter()
            .any(|s| matches!(s, Served::Marker { failed: true, .. }))
    }
    pub fn attr_query_failed(&self) -> bool {
        self.served
            .iter()
            .any(|s| matches!(s, Served::Attrs { failed: true, .. }))
    }
    fn mech(&self, denom: &str) -> Mech {
        if self.restricted(denom) {
            Mech::Marker
        } else {
            Mech::Bank
        }
    }
    fn pay(&self, to: &str, amount: u128, denom: &str) -> ExpXfer {
        ExpXfer {
            from: self.contract.to_string(),
            to: to.to_string(),
            denom: denom.to_string(),
            amount,
            mech: self.mech(denom),
        }
    }
    fn pull(&self, from: &str, amount: u128, denom: &str) -> ExpXfer {
        ExpXfer {
            from: from.to_string(),
            to: self.contract.to_string(),
            denom: denom.to_string(),
            amount,
            mech: Mech::Marker,
        }
    }
    fn funds_empty(&self) -> bool {
        self.funds.is_empty()
    }
    fn funds_exactly(&self, amount: u128, denom: &str) -> bool {
        self.funds.len() == 1 && self.funds[0].denom == denom && self.funds[0].amt() == amount
    }
    fn has_attrs(&self, required: &[String]) -> bool {
        let have = self.attrs.get(self.sender).cloned().unwrap_or_default();
        required.iter().all(|r| have.contains(r))
    }
}

/// amounts the contract has to form as 96-bit decimals (DESIGN section 3: numeric domain)
fn fits96(x: u128) -> bool {
    x < (1u128 << 96)
}

fn refuse(reason: &'static str) -> Expect {
    Expect::Refuse { reason }
}
fn dont(reason: &'static str) -> Expect {
    Expect::DontCare { reason }
}

/// price admissibility shared by both create requests: Ok(price) | Err(expectation)
fn admissible_price(price: &str, cfg: &Cfg) -> Result<Dec, Expect> {
    match dec::parse(price) {
        Parsed::Bad => Err(refuse("price_unparseable")),
        Parsed::Odd | Parsed::Long => Err(dont("price_spelling")),
        Parsed::Ok(p) => {
            if !p.is_positive() {
                return Err(refuse("price_not_positive"));
            }
            if cfg.precision > 18 {
                return Err(dont("precision_domain"));
            }
            // the contract forms price * 10^precision in 96 bits
            let scaled = Dec {
                neg: false,
                mant: p.mant.checked_mul(pow10(cfg.precision as u32)).map_err(|_| dont("domain"))?,
                scale: p.scale,
            };
            if !scaled.representable() {
                return Err(dont("price_domain"));
            }
            if p.decimals() as u128 > cfg.precision {
                return Err(refuse("price_precision"));
            }
            Ok(p)
        }
    }
}

/// rate * amount rounded half away from zero, judged exactly
fn fee_of(rate: &str, amount: U) -> Result<u128, Expect> {
    match dec::parse(rate) {
        Parsed::Ok(r) => {
            if r.neg && !r.is_zero() {
                return Err(dont("negative_rate"));
            }
            let prod = r.mul_int(amount).ok_or_else(|| dont("domain"))?;
            if !prod.representable() {
                return Err(dont("fee_product_domain"));
            }
            let f = prod.round_half_up().ok_or_else(|| dont("domain"))?;
            to_u128(f).ok_or_else(|| dont("domain"))
        }
        _ => Err(dont("stored_rate_spelling")),
    }
}

/// R(fee * rem / total): half-up value and, at an exact half-unit tie, also the next lower unit
fn pro_rata(fee: u128, rem: u128, total: u128) -> Result<Vec<u128>, Expect> {
    pro_rata_alts(fee, rem, total).map_err(dont)
}

/// R(fee * rem / total): the values the statement accepts for the pro-rata quotient.
///
/// The exact value is rounded half-up. The contract forms the quotient rem/total in 28-digit
/// decimals and multiplies by the fee, which carries an absolute error of at most about
/// fee * 1e-28 (each of the two roundings contributes fee * 0.5e-28). So:
///  * at an exact half-unit tie the next lower unit is accepted as well (C09's own wording);
///  * when the exact value lies within fee * 2e-28 of a half unit (only possible for fees of
///    about 1e18 and more) both neighbouring integers are accepted;
///  * everywhere else only the half-up value is.
/// Fees of 1e27 and more are outside the domain (the error bound approaches half a unit).
pub fn pro_rata_alts(fee: u128, rem: u128, total: u128) -> Result<Vec<u128>, &'static str> {
    if total == 0 {
        return Err("zero_quote_total");
    }
    if fee >= 10u128.pow(27) || rem > total {
        return Err("pro_rata_domain");
    }
    let num = u(fee).checked_mul(u(rem)).map_err(|_| "domain")?;
    let den = u(total);
    let h = to_u128(div_half_up(num, den)).ok_or("domain")?;
    let two = u(2);
    let r = (num * two) % (den * two); // in [0, 2*den): r == den is the exact tie
    let mut v = vec![h];
    if r == den {
        if h >= 1 {
            v.push(h - 1);
        }
        return Ok(v);
    }
    // distance to the half unit, as a fraction of 2*den, against fee * 2e-28
    let dist = if r > den { r - den } else { den - r };
    let thr = u(fee).checked_mul(den).map_err(|_| "domain")?.checked_mul(u(4)).map_err(|_| "domain")? / pow10(28);
    if !thr.is_zero() && dist <= thr {
        // near-tie at large magnitudes: floor and ceiling are both acceptable
        let fl = to_u128(num / den).ok_or("domain")?;
        for c in [fl, fl + 1] {
            if !v.contains(&c) {
                v.push(c);
            }
        }
    }
    Ok(v)
}


/// The fee a bid holds *by definition*: its original fee scaled by the unspent fraction of its
/// quote (C09). When the recorded amount is one of the acceptable roundings it is used (a tie may
/// have been resolved either way); otherwise the half-up value is, so that a bid whose recorded
/// fee was corrupted earlier (e.g. by a faulty format conversion) is still judged by what the
/// statement says it is owed, not by what the record claims.
fn held_fee_by_definition(bid: &BidM) -> Result<u128, Expect> {
    let alts = pro_rata(bid.fee_total(), bid.unspent_quote(), bid.quote_amount)?;
    let rec = bid.unspent_fee();
    if alts.contains(&rec) {
        Ok(rec)
    } else {
        Ok(alts[0])
    }
}

pub fn class_json(c: &AskClass) -> String {
    match c {
        AskClass::Plain => "\"Basic\"".to_string(),
        AskClass::Pending => "{\"Convertible\":{\"status\":\"PendingIssuerApproval\"}}".to_string(),
        AskClass::Ready {
            approver,
            cb_denom,
            cb_amount,
        } => format!(
            "{{\"Convertible\":{{\"status\":{{\"Ready\":{{\"approver\":\"{}\",\"converted_base\":{{\"denom\":\"{}\",\"amount\":\"{}\"}}}}}}}}}}",
            approver, cb_denom, cb_amount
        ),
    }
}

// ------------------------------------------------------------------ execute rules

pub fn expect(req: &Req, cx: &Ctx) -> Expect {
    if cx.marker_query_failed() {
        // the contract was told nothing about a denomination: decisions are judged only by L1/C10
        return dont("marker_query_failed");
    }
    match req {
        Req::Malformed => refuse("malformed_request"),
        Req::Unknown => dont("request_spelling"),
        Req::CreateAsk {
            id,
            base,
            quote,
            price,
            size,
        } => create_ask(cx, id, base, quote, price, *size),
        Req::CreateBid {
            id,
            base,
            fee,
            price,
            quote,
            quote_size,
            size,
        } => create_bid(cx, id, base, fee, price, quote, *quote_size, *size),
        Req::ApproveAsk { id, base, size } => approve_ask(cx, id, base, *size),
        Req::CancelAsk { id } => cancel_ask(cx, id),
        Req::ExpireAsk { id } => reverse_ask(cx, id, None, "expire_ask"),
        Req::RejectAsk { id, size } => reverse_ask(cx, id, Some(*size), "reject_ask"),
        Req::CancelBid { id } => reverse_bid(cx, id, None, "cancel_bid"),
        Req::ExpireBid { id } => reverse_bid(cx, id, None, "expire_bid"),
        Req::RejectBid { id, size } => reverse_bid(cx, id, Some(*size), "reject_bid"),
        Req::ExecuteMatch {
            ask_id,
            bid_id,
            price,
            size,
        } => execute_match(cx, ask_id, bid_id, price, *size),
        Req::ModifyContract(m) => modify(cx, m),
    }
}

fn create_ask(cx: &Ctx, id: &str, base: &str, quote: &str, price: &str, size: u128) -> Expect {
    let cfg = cx.cfg;
    if id_class(id) != IdClass::Canonical {
        return refuse("id_not_canonical");
    }
    if base.is_empty() || quote.is_empty() || price.is_empty() {
        return refuse("empty_field");
    }
    if size < 1 {
        return refuse("size_zero");
    }
    if !fits96(size) {
        return dont("amount_domain");
    }
    if cfg.increment == 0 {
        return dont("increment_zero");
    }
    if size % cfg.increment != 0 {
        return refuse("size_off_lot");
    }
    if base != cfg.base_denom && !cfg.convertibles.iter().any(|c| c == base) {
        return refuse("base_not_traded");
    }
    if !cfg.quotes.iter().any(|q| q == quote) {
        return refuse("quote_not_traded");
    }
    let p = match admissible_price(price, cfg) {
        Ok(p) => p,
        Err(e) => return e,
    };
    if !cfg.ask_attrs.is_empty() {
        if cx.attr_query_failed() {
            return refuse("attribute_query_failed");
        }
        if !cx.has_attrs(&cfg.ask_attrs) {
            return refuse("missing_attribute");
        }
    }
    let restricted = cx.restricted(base);
    if restricted {
        if !cx.funds_empty() {
            return refuse("funds_with_restricted");
        }
    } else if !cx.funds_exactly(size, base) {
        return refuse("funds_mismatch");
    }
    if cx.book.asks.contains_key(id) {
        return refuse("id_in_use");
    }
    // price*size is integral in every coherent configuration (C13); abstain otherwise
    // (an ask states no quote size, so its total need not fit anything; only integrality matters)
    match p.mul_int(u(size)) {
        Some(t) if t.is_integral() => {}
        _ => return dont("ask_total_domain"),
    }
    let class = if base == cfg.base_denom {
        AskClass::Plain
    } else {
        AskClass::Pending
    };
    let ask = AskM {
        id: id.to_string(),
        owner: cx.sender.to_string(),
        base: base.to_string(),
        quote: quote.to_string(),
        price: price.to_string(),
        size,
        class: class.clone(),
    };
    let mut e = Effects::default();
    if restricted {
        e.xfers.push(cx.pull(cx.sender, size, base));
        e.tags.push("pull");
    }
    e.asks.push((id.to_string(), Some(ask)));
    e.attrs = vec![
        ("action".into(), AttrExp::Exact("create_ask".into())),
        ("id".into(), AttrExp::Exact(id.to_string())),
        ("price".into(), AttrExp::Numeric(price.to_string())),
        ("size".into(), AttrExp::Exact(size.to_string())),
    ];
    e.tags.push(if class == AskClass::Plain { "plain" } else { "convertible" });
    Expect::Accept {
        alts: vec![e],
        must: true,
    }
}

#[allow(clippy::too_many_arguments)]
fn create_bid(
    cx: &Ctx,
    id: &str,
    base: &str,
    fee: &Option<(String, u128)>,
    price: &str,
    quote: &str,
    quote_size: u128,
    size: u128,
) -> Expect {
    let cfg = cx.cfg;
    if id_class(id) != IdClass::Canonical {
        return refuse("id_not_canonical");
    }
    if base.is_empty() || quote.is_empty() || price.is_empty() {
        return refuse("empty_field");
    }
    if size < 1 || quote_size < 1 {
        return refuse("size_zero");
    }
    if !fits96(size) || !fits96(quote_size) {
        return dont("amount_domain");
    }
    let p = match admissible_price(price, cfg) {
        Ok(p) => p,
        Err(e) => return e,
    };
    if cfg.increment == 0 {
        return dont("increment_zero");
    }
    if size % cfg.increment != 0 {
        return refuse("size_off_lot");
    }
    let total = match p.mul_int(u(size)) {
        Some(t) => t,
        None => return dont("domain"),
    };
    if !total.representable() {
        return dont("total_domain");
    }
    let t = match total.to_int() {
        Some(t) => t,
        None => return refuse("total_not_integral"),
    };
    let t128 = match to_u128(t) {
        Some(v) => v,
        None => return dont("domain"),
    };
    if t128 != quote_size {
        return refuse("quote_size_mismatch");
    }
    let f = match &cfg.bid_fee {
        None => 0u128,
        Some(FeeCfg { rate, .. }) => match fee_of(rate, t) {
            Ok(f) => f,
            Err(e) => return e,
        },
    };
    match fee {
        Some((fd, fa)) => {
            if *fa != f {
                return refuse("fee_amount");
            }
            if fd != quote {
                return refuse("fee_denom");
            }
            if *fa == 0 {
                return dont("zero_fee_coin");
            }
        }
        None => {
            if f != 0 {
                return refuse("fee_missing");
            }
        }
    }
    if !cfg.quotes.iter().any(|q| q == quote) {
        return refuse("quote_not_traded");
    }
    if base != cfg.base_denom {
        return refuse("base_not_traded");
    }
    if !cfg.bid_attrs.is_empty() {
        if cx.attr_query_failed() {
            return refuse("attribute_query_failed");
        }
        if !cx.has_attrs(&cfg.bid_attrs) {
            return refuse("missing_attribute");
        }
    }
    let restricted = cx.restricted(quote);
    let escrow = match t128.checked_add(f) {
        Some(v) => v,
        None => return dont("domain"),
    };
    if restricted {
        if !cx.funds_empty() {
            return refuse("funds_with_restricted");
        }
    } else if !cx.funds_exactly(escrow, quote) {
        return refuse("funds_mismatch");
    }
    if cx.book.bids.contains_key(id) {
        return refuse("id_in_use");
    }
    let bid = BidM {
        id: id.to_string(),
        owner: cx.sender.to_string(),
        base_denom: base.to_string(),
        base_amount: size,
        quote_denom: quote.to_string(),
        quote_amount: quote_size,
        fee: fee.clone(),
        price: price.to_string(),
        acc_base: 0,
        acc_quote: 0,
        acc_fee: 0,
        v2: false,
    };
    let mut e = Effects::default();
    if restricted {
        e.xfers.push(cx.pull(cx.sender, escrow, quote));
        e.tags.push("pull");
    }
    e.bids.push((id.to_string(), Some(bid)));
    e.attrs = vec![
        ("action".into(), AttrExp::Exact("create_bid".into())),
        ("id".into(), AttrExp::Exact(id.to_string())),
        ("price".into(), AttrExp::Numeric(price.to_string())),
        ("size".into(), AttrExp::Exact(size.to_string())),
    ];
    e.bid_fee = f;
    if cfg.bid_fee.is_some() {
        e.tags.push(if f == 0 { "fee_rounds_to_zero" } else { "fee" });
    }
    Expect::Accept {
        alts: vec![e],
        must: true,
    }
}

fn approve_ask(cx: &Ctx, id: &str, base: &str, size: u128) -> Expect {
    let cfg = cx.cfg;
    if id_class(id) != IdClass::Canonical {
        // an order carried over under a legacy id can only leave the book (C06); whether it can
        // be approved is not stated
        if cx.book.asks.contains_key(id) {
            return dont("legacy_id_not_approvable");
        }
        return refuse("no_such_ask");
    }
    if base.is_empty() {
        return refuse("empty_field");
    }
    if size < 1 {
        return refuse("size_zero");
    }
    if !cfg.approvers.iter().any(|a| a == cx.sender) {
        return refuse("not_approver");
    }
    let ask = match cx.book.asks.get(id) {
        Some(a) => a,
        None => return refuse("no_such_ask"),
    };
    if ask.base == cfg.base_denom {
        // an ask in the contract's own base denomination is a plain ask whatever was recorded
        return refuse("plain_ask");
    }
    match ask.class {
        AskClass::Plain => return refuse("plain_ask"),
        AskClass::Ready { .. } => return refuse("already_approved"),
        AskClass::Pending => {}
    }
    if size != ask.size {
        return refuse("size_not_current");
    }
    if base != cfg.base_denom {
        return refuse("base_not_contract_base");
    }
    let restricted = cx.restricted(base);
    if restricted {
        if !cx.funds_empty() {
            return refuse("funds_with_restricted");
        }
    } else if !cx.funds_exactly(size, base) {
        return refuse("funds_mismatch");
    }
    let mut a2 = ask.clone();
    a2.class = AskClass::Ready {
        approver: cx.sender.to_string(),
        cb_denom: base.to_string(),
        cb_amount: size,
    };
    let mut e = Effects::default();
    if restricted {
        e.xfers.push(cx.pull(cx.sender, size, base));
        e.tags.push("pull");
    }
    e.attrs = vec![
        ("action".into(), AttrExp::Exact("approve_ask".into())),
        ("id".into(), AttrExp::Exact(id.to_string())),
        ("price".into(), AttrExp::Numeric(ask.price.clone())),
        ("size".into(), AttrExp::Exact(ask.size.to_string())),
    ];
    e.asks.push((id.to_string(), Some(a2)));
    Expect::Accept {
        alts: vec![e],
        must: false,
    }
}

fn cancel_ask(cx: &Ctx, id: &str) -> Expect {
    let ask = match cx.book.asks.get(id) {
        Some(a) => a,
        None => return refuse("no_such_ask"),
    };
    if ask.owner != cx.sender {
        return refuse("not_owner");
    }
    if !cx.funds_empty() {
        return dont("funds_attached_to_reversal");
    }
    if id_class(id) == IdClass::NotUuid {
        return dont("non_uuid_key_on_book");
    }
    let mut e = Effects::default();
    e.xfers.push(cx.pay(&ask.owner, ask.size, &ask.base));
    if let AskClass::Ready {
        approver, cb_denom, ..
    } = &ask.class
    {
        // the cancelled portion is the whole remaining size; the approver gets that much base back
        e.xfers.push(cx.pay(approver, ask.size, cb_denom));
        e.tags.push("approved");
    }
    e.asks.push((id.to_string(), None));
    e.attrs = vec![
        ("action".into(), AttrExp::Exact("cancel_ask".into())),
        ("id".into(), AttrExp::Exact(id.to_string())),
    ];
    e.tags.push(ask.class.tag());
    if id_class(id) == IdClass::Legacy {
        e.tags.push("legacy_id");
    }
    Expect::Accept {
        alts: vec![e],
        must: true,
    }
}

fn reverse_ask(cx: &Ctx, id: &str, size: Option<Option<u128>>, action: &'static str) -> Expect {
    let cfg = cx.cfg;
    if !cfg.executors.iter().any(|a| a == cx.sender) {
        return refuse("not_executor");
    }
    let ask = match cx.book.asks.get(id) {
        Some(a) => a,
        None => return refuse("no_such_ask"),
    };
    if !cx.funds_empty() {
        return dont("funds_attached_to_reversal");
    }
    if id_class(id) == IdClass::NotUuid {
        return dont("non_uuid_key_on_book");
    }
    let requested = size.flatten();
    let c = match requested {
        None => ask.size,
        Some(c) => {
            if c < 1 {
                return refuse("partial_zero");
            }
            if cfg.increment == 0 {
                return dont("increment_zero");
            }
            if c % cfg.increment != 0 {
                return refuse("partial_off_lot");
            }
            if c > ask.size {
                return refuse("partial_above_remainder");
            }
            c
        }
    };
    let mut e = Effects::default();
    e.xfers.push(cx.pay(&ask.owner, c, &ask.base));
    let mut a2 = ask.clone();
    a2.size = ask.size - c;
    if let AskClass::Ready {
        approver, cb_denom, ..
    } = &ask.class
    {
        e.xfers.push(cx.pay(approver, c, cb_denom));
        a2.class = AskClass::Ready {
            approver: approver.clone(),
            cb_denom: cb_denom.clone(),
            cb_amount: a2.size,
        };
        e.tags.push("approved");
    }
    let open = a2.size > 0;
    e.asks.push((id.to_string(), if open { Some(a2) } else { None }));
    e.attrs = vec![
        ("action".into(), AttrExp::Exact(action.into())),
        ("id".into(), AttrExp::Exact(id.to_string())),
        ("reverse_size".into(), AttrExp::Exact(c.to_string())),
        (
            "order_open".into(),
            AttrExp::Exact(if open { "true" } else { "false" }.into()),
        ),
    ];
    e.tags.push(if requested.is_some() { "partial" } else { "full" });
    e.tags.push(if open { "stays_open" } else { "closes" });
    if cfg.increment > 0 && c % cfg.increment != 0 {
        e.tags.push("non_lot_remainder");
    }
    if id_class(id) == IdClass::Legacy {
        e.tags.push("legacy_id");
    }
    Expect::Accept {
        alts: vec![e],
        // C06 demands that an executor can always expire; partial rejects are only constrained, not demanded
        must: action == "expire_ask",
    }
}

fn reverse_bid(cx: &Ctx, id: &str, size: Option<Option<u128>>, action: &'static str) -> Expect {
    let cfg = cx.cfg;
    let bid = match cx.book.bids.get(id) {
        Some(b) => b,
        None => return refuse("no_such_bid"),
    };
    if action == "cancel_bid" {
        if bid.owner != cx.sender {
            return refuse("not_owner");
        }
    } else if !cfg.executors.iter().any(|a| a == cx.sender) {
        return refuse("not_executor");
    }
    if !cx.funds_empty() {
        return dont("funds_attached_to_reversal");
    }
    if id_class(id) == IdClass::NotUuid {
        return dont("non_uuid_key_on_book");
    }
    let requested = size.flatten();
    let c = match requested {
        None => bid.unfilled(),
        Some(c) => {
            if c < 1 {
                return refuse("partial_zero");
            }
            if cfg.increment == 0 {
                return dont("increment_zero");
            }
            if c % cfg.increment != 0 {
                return refuse("partial_off_lot");
            }
            if c > bid.unfilled() {
                return refuse("partial_above_remainder");
            }
            c
        }
    };
    if !fits96(c) || !fits96(bid.quote_amount) || !fits96(bid.base_amount) {
        return dont("amount_domain");
    }
    let p = match dec::parse(&bid.price) {
        Parsed::Ok(p) => p,
        _ => return dont("stored_price_spelling"),
    };
    let q = match p.mul_int(u(c)).and_then(|t| if t.representable() { t.to_int() } else { None }) {
        Some(q) => match to_u128(q) {
            Some(v) => v,
            None => return dont("domain"),
        },
        None => return dont("returned_quote_not_integral"),
    };
    if q > bid.unspent_quote() {
        return dont("state_inconsistent");
    }
    let held = if bid.fee.is_some() {
        match held_fee_by_definition(bid) {
            Ok(h) => h,
            Err(e) => return e,
        }
    } else {
        0
    };
    let fee_alts: Vec<u128> = if bid.fee.is_some() {
        match pro_rata(bid.fee_total(), bid.unspent_quote() - q, bid.quote_amount) {
            Ok(v) => v.into_iter().filter(|r| *r <= held).map(|r| held - r).collect(),
            Err(e) => return e,
        }
    } else {
        vec![0]
    };
    if fee_alts.is_empty() {
        return dont("state_inconsistent_fee");
    }
    let mut alts = vec![];
    for r in fee_alts {
        let mut e = Effects::default();
        if q > 0 {
            e.xfers.push(cx.pay(&bid.owner, q, &bid.quote_denom));
        }
        if r > 0 {
            e.xfers.push(cx.pay(&bid.owner, r, &bid.quote_denom));
        }
        let mut b2 = bid.clone();
        b2.acc_base += c;
        b2.acc_quote += q;
        b2.acc_fee = bid.fee_total() - (held - r);
        let open = b2.unfilled() > 0;
        e.bids.push((id.to_string(), if open { Some(b2) } else { None }));
        e.attrs = vec![
            ("action".into(), AttrExp::Exact(action.into())),
            ("id".into(), AttrExp::Exact(id.to_string())),
            ("reverse_size".into(), AttrExp::Exact(c.to_string())),
            (
                "order_open".into(),
                AttrExp::Exact(if open { "true" } else { "false" }.into()),
            ),
        ];
        e.bid_fee = r;
        e.tags.push(if requested.is_some() { "partial" } else { "full" });
        e.tags.push(if open { "stays_open" } else { "closes" });
        if bid.fee.is_some() {
            e.tags.push(if r == 0 { "fee_return_zero" } else { "fee_return" });
        }
        if bid.acc_base > 0 {
            e.tags.push("after_fill_or_reject");
        }
        if cfg.increment > 0 && c % cfg.increment != 0 {
            e.tags.push("non_lot_remainder");
        }
        if id_class(id) == IdClass::Legacy {
            e.tags.push("legacy_id");
        }
        alts.push(e);
    }
    if alts.len() > 1 {
        for a in alts.iter_mut() {
            a.tags.push("tie");
        }
    }
    Expect::Accept {
        alts,
        must: action != "reject_bid",
    }
}

fn execute_match(cx: &Ctx, ask_id: &str, bid_id: &str, price: &str, size: u128) -> Expect {
    let cfg = cx.cfg;
    if price.is_empty() {
        return refuse("empty_field");
    }
    if size < 1 {
        return refuse("size_zero");
    }
    if !cfg.executors.iter().any(|a| a == cx.sender) {
        return refuse("not_executor");
    }
    let ask = match cx.book.asks.get(ask_id) {
        Some(a) => a,
        None => return refuse("no_such_ask"),
    };
    let bid = match cx.book.bids.get(bid_id) {
        Some(b) => b,
        None => return refuse("no_such_bid"),
    };
    if id_class(ask_id) != IdClass::Canonical || id_class(bid_id) != IdClass::Canonical {
        // orders carried over under legacy ids are only promised an exit (C06), not a match
        return dont("legacy_id_not_matchable");
    }
    if !cx.funds_empty() {
        // no statement says what happens to funds attached to a match; solvency (C01) still applies
        return dont("funds_attached_to_match");
    }
    if ask.quote != bid.quote_denom {
        return refuse("quote_mismatch");
    }
    if ask.class == AskClass::Pending {
        return refuse("ask_pending");
    }
    let ap = match dec::parse(&ask.price) {
        Parsed::Ok(p) => p,
        _ => return dont("stored_price_spelling"),
    };
    let bp = match dec::parse(&bid.price) {
        Parsed::Ok(p) => p,
        _ => return dont("stored_price_spelling"),
    };
    let p = match dec::parse(price) {
        Parsed::Ok(p) => p,
        Parsed::Bad => return refuse("price_unparseable"),
        Parsed::Odd | Parsed::Long => return dont("price_spelling"),
    };
    if ap.cmp_val(&bp) == std::cmp::Ordering::Greater {
        return refuse("ask_above_bid");
    }
    let at_ask = p.eq_val(&ap);
    let at_bid = p.eq_val(&bp);
    if !at_ask && !at_bid {
        return refuse("price_not_a_limit");
    }
    if size > ask.size || size > bid.unfilled() {
        return refuse("size_above_remainder");
    }
    if !fits96(size) || !fits96(bid.quote_amount) || !fits96(bid.base_amount) {
        return dont("amount_domain");
    }
    let gross = match p.mul_int(u(size)) {
        Some(g) if g.representable() => g,
        _ => return dont("gross_domain"),
    };
    let g = match gross.to_int().and_then(to_u128) {
        Some(g) => g,
        None => return refuse("gross_not_integral"),
    };
    let improved = !at_bid;
    let o = if improved {
        let og = match bp.mul_int(u(size)) {
            Some(x) if x.representable() => x,
            _ => return dont("gross_domain"),
        };
        match og.to_int().and_then(to_u128) {
            Some(v) => v,
            None => return refuse("original_gross_not_integral"),
        }
    } else {
        g
    };
    if o > bid.unspent_quote() || g > o {
        return dont("state_inconsistent");
    }
    // fees payable
    let af = match &cfg.ask_fee {
        None => 0,
        Some(FeeCfg { rate, .. }) => match fee_of(rate, u(g)) {
            Ok(f) => f,
            Err(e) => return e,
        },
    };
    if af > g {
        // the configured fee cannot be taken from these proceeds: a refusal is fine ("fees
        // payable"), but no settlement of the match can satisfy C09 / C02
        return refuse("ask_fee_unpayable");
    }
    // bid fee alternatives: (bf, of) with of >= bf
    let mut must_accept = true;
    let mut fee_alts: Vec<(u128, u128)> = vec![];
    if bid.fee.is_some() {
        let uf = match held_fee_by_definition(bid) {
            Ok(h) => h,
            Err(e) => return e,
        };
        let rg = match pro_rata(bid.fee_total(), bid.unspent_quote() - g, bid.quote_amount) {
            Ok(v) => v,
            Err(e) => return e,
        };
        let ro = if improved {
            match pro_rata(bid.fee_total(), bid.unspent_quote() - o, bid.quote_amount) {
                Ok(v) => v,
                Err(e) => return e,
            }
        } else {
            vec![]
        };
        for a in &rg {
            if *a > uf {
                continue;
            }
            let bf = uf - a;
            if improved {
                for b in &ro {
                    if *b > *a {
                        continue;
                    }
                    fee_alts.push((bf, uf - b));
                }
            } else {
                fee_alts.push((bf, bf));
            }
        }
        if fee_alts.is_empty() {
            return dont("state_inconsistent_fee");
        }
        if cfg.bid_fee.is_none() {
            // the fill's fee is owed to the bid-fee account, and there is none: only fee-free
            // alternatives can be settled as C02 words it. When the tie rule leaves both a
            // fee-free and a fee-bearing rounding open, the contract may land on the latter and
            // refuse ("fees payable"): acceptance is then not demanded
            let n0 = fee_alts.len();
            fee_alts.retain(|(bf, _)| *bf == 0);
            if fee_alts.is_empty() {
                return refuse("bid_fee_unpayable");
            }
            if fee_alts.len() < n0 {
                must_accept = false;
            }
        }
    } else {
        fee_alts.push((0, 0));
    }
    let tie = fee_alts.len() > 1;
    let mut alts = vec![];
    for (bf, of) in fee_alts {
        let mut e = Effects::default();
        if af > 0 {
            e.xfers
                .push(cx.pay(&cfg.ask_fee.as_ref().unwrap().account, af, &bid.quote_denom));
        }
        if bf > 0 {
            e.xfers
                .push(cx.pay(&cfg.bid_fee.as_ref().unwrap().account, bf, &bid.quote_denom));
        }
        let mut a2 = ask.clone();
        a2.size = ask.size - size;
        match &ask.class {
            AskClass::Plain => {
                if g - af > 0 {
                    e.xfers.push(cx.pay(&ask.owner, g - af, &bid.quote_denom));
                }
                e.xfers.push(cx.pay(&bid.owner, size, &ask.base));
                e.tags.push("plain");
            }
            AskClass::Ready {
                approver, cb_denom, ..
            } => {
                e.xfers.push(cx.pay(&bid.owner, size, cb_denom));
                e.xfers.push(cx.pay(approver, size, &ask.base));
                if g - af > 0 {
                    e.xfers.push(cx.pay(approver, g - af, &bid.quote_denom));
                }
                a2.class = AskClass::Ready {
                    approver: approver.clone(),
                    cb_denom: cb_denom.clone(),
                    cb_amount: a2.size,
                };
                e.tags.push("approved");
            }
            AskClass::Pending => unreachable!(),
        }
        if improved {
            if o - g > 0 {
                e.xfers.push(cx.pay(&bid.owner, o - g, &bid.quote_denom));
            }
            if of - bf > 0 {
                e.xfers.push(cx.pay(&bid.owner, of - bf, &bid.quote_denom));
            }
        }
        let mut b2 = bid.clone();
        b2.acc_base += size;
        b2.acc_quote += o;
        if bid.fee.is_some() {
            // fee held afterwards = fee held by definition before, minus what this fill consumed
            let held_before = held_fee_by_definition(bid).unwrap_or(bid.unspent_fee());
            b2.acc_fee = bid.fee_total() - (held_before - of);
        }
        let ask_open = a2.size > 0;
        let bid_open = b2.unfilled() > 0;
        e.asks
            .push((ask_id.to_string(), if ask_open { Some(a2) } else { None }));
        e.bids
            .push((bid_id.to_string(), if bid_open { Some(b2) } else { None }));
        e.attrs = vec![
            ("action".into(), AttrExp::Exact("execute".into())),
            ("ask_id".into(), AttrExp::Exact(ask_id.to_string())),
            ("bid_id".into(), AttrExp::Exact(bid_id.to_string())),
            ("size".into(), AttrExp::Exact(size.to_string())),
            ("price".into(), AttrExp::Numeric(price.to_string())),
            ("ask_fee".into(), AttrExp::Exact(af.to_string())),
            ("bid_fee".into(), AttrExp::Exact(bf.to_string())),
        ];
        e.ask_fee = af;
        e.bid_fee = bf;
        e.tags.push(if improved { "at_ask_price_improved" } else if at_ask { "prices_equal" } else { "at_bid_price" });
        e.tags.push(if ask_open { "ask_partial" } else { "ask_complete" });
        e.tags.push(if bid_open { "bid_partial" } else { "bid_complete" });
        if cfg.ask_fee.is_some() {
            e.tags.push(if af == 0 { "askfee_zero" } else if af == g { "askfee_whole" } else { "askfee" });
        }
        if bid.fee.is_some() {
            e.tags.push(if bf == 0 { "bidfee_zero" } else { "bidfee" });
            if improved {
                e.tags.push(if of - bf == 0 { "feerefund_zero" } else { "feerefund" });
            }
        }
        if bid.acc_base > 0 {
            e.tags.push("later_fill");
        }
        if tie {
            e.tags.push("tie");
        }
        if cfg.increment > 0 && size % cfg.increment != 0 {
            e.tags.push("non_lot_size");
        }
        alts.push(e);
    }
    Expect::Accept { alts, must: must_accept }
}

/// Ok(None) = pair not supplied, Ok(Some(None)) = cleared, Ok(Some(Some(fee))) = installed
#[derive(Debug, PartialEq)]
pub enum PairVerdict {
    NotSupplied,
    Half,
    Clear,
    Install(FeeCfg),
    BadRate,
    OddRate,
    BadAccount(FeeCfg),
}

pub fn fee_pair(rate: &Option<String>, account: &Option<String>) -> PairVerdict {
    match (rate, account) {
        (None, None) => PairVerdict::NotSupplied,
        (Some(_), None) | (None, Some(_)) => PairVerdict::Half,
        (Some(r), Some(a)) => {
            if r.is_empty() && a.is_empty() {
                return PairVerdict::Clear;
            }
            match dec::parse(r) {
                Parsed::Bad => PairVerdict::BadRate,
                Parsed::Odd => PairVerdict::OddRate,
                Parsed::Long => {
                    // a decimal with more digits than the arithmetic keeps: parseable, installed as written
                    let f = FeeCfg {
                        account: a.clone(),
                        rate: r.clone(),
                    };
                    if addr_ok(a) {
                        PairVerdict::Install(f)
                    } else {
                        PairVerdict::BadAccount(f)
                    }
                }
                Parsed::Ok(_) => {
                    let f = FeeCfg {
                        account: a.clone(),
                        rate: r.clone(),
                    };
                    if addr_ok(a) {
                        PairVerdict::Install(f)
                    } else {
                        PairVerdict::BadAccount(f)
                    }
                }
            }
        }
    }
}

fn rate_eq(a: &str, b: &str) -> Option<bool> {
    match (dec::parse(a), dec::parse(b)) {
        (Parsed::Ok(x), Parsed::Ok(y)) => Some(x.eq_val(&y)),
        (Parsed::Ok(_) | Parsed::Long, Parsed::Ok(_) | Parsed::Long) => {
            // more digits than the arithmetic keeps: "as a number" means as the arithmetic sees
            // it. Clearly different values are different; anything within a few units of the
            // 28th decimal is left undecided
            let (x, y) = (dec::parse_rounded28(a)?, dec::parse_rounded28(b)?);
            if x.neg || y.neg {
                return None;
            }
            let sc = x.scale.max(y.scale);
            let xa = x.mant * dec::pow10(sc - x.scale);
            let ya = y.mant * dec::pow10(sc - y.scale);
            let diff = if xa > ya { xa - ya } else { ya - xa };
            let unit28 = if sc >= 28 { dec::pow10(sc - 28) } else { dec::u(0) };
            if diff > unit28 * dec::u(10) && !diff.is_zero() {
                Some(false)
            } else {
                None
            }
        }
        _ => None,
    }
}

fn modify(cx: &Ctx, m: &ModifyReq) -> Expect {
    let cfg = cx.cfg;
    if !cfg.executors.iter().any(|a| a == cx.sender) {
        return refuse("not_executor");
    }
    if let Some(v) = &m.approvers {
        if v.is_empty() {
            return refuse("approvers_empty");
        }
    }
    if let Some(v) = &m.executors {
        if v.is_empty() {
            return refuse("executors_empty");
        }
    }
    let ap = fee_pair(&m.ask_fee_rate, &m.ask_fee_account);
    let bp = fee_pair(&m.bid_fee_rate, &m.bid_fee_account);
    if ap == PairVerdict::Half || bp == PairVerdict::Half {
        return refuse("fee_pair_half_supplied");
    }
    let asks_open = !cx.book.asks.is_empty();
    let bids_open = !cx.book.bids.is_empty();
    let mut soft: Option<&'static str> = None;

    // one side of the book: may the supplied attributes / fee pair be installed?
    let mut side = |open: bool,
                    attrs: &Option<Vec<String>>,
                    cur_attrs: &Vec<String>,
                    pair: &PairVerdict,
                    cur_fee: &Option<FeeCfg>|
     -> Option<Expect> {
        if !open {
            return None;
        }
        if let Some(a) = attrs {
            if a != cur_attrs {
                return Some(refuse("attributes_changed_under_open_orders"));
            }
            soft = Some("same_attributes_resupplied");
        }
        match pair {
            PairVerdict::NotSupplied | PairVerdict::Half => {}
            PairVerdict::Clear => match cur_fee {
                Some(_) => return Some(refuse("fee_cleared_under_open_orders")),
                None => soft = Some("clear_absent_fee"),
            },
            PairVerdict::BadRate => return Some(refuse("fee_rate_unparseable")),
            PairVerdict::OddRate => soft = Some("rate_spelling"),
            PairVerdict::Install(f) | PairVerdict::BadAccount(f) => match cur_fee {
                None => return Some(refuse("fee_set_under_open_orders")),
                Some(c) => match rate_eq(&c.rate, &f.rate) {
                    Some(true) => {}
                    Some(false) => return Some(refuse("fee_rate_changed_under_open_orders")),
                    None => soft = Some("stored_rate_spelling"),
                },
            },
        }
        None
    };
    if let Some(e) = side(asks_open, &m.ask_attrs, &cfg.ask_attrs, &ap, &cfg.ask_fee) {
        return e;
    }
    if let Some(e) = side(bids_open, &m.bid_attrs, &cfg.bid_attrs, &bp, &cfg.bid_fee) {
        return e;
    }
    if asks_open || bids_open {
        if let Some(v) = &m.approvers {
            if !cfg.approvers.iter().all(|a| v.contains(a)) {
                return refuse("approver_dropped_under_open_orders");
            }
        }
    }
    if let Some(r) = soft {
        return dont(r);
    }
    // statements are silent on malformed addresses / rates on an empty side: abstain
    let bad_addr = |v: &Option<Vec<String>>| v.as_ref().map_or(false, |l| l.iter().any(|a| !addr_ok(a)));
    if bad_addr(&m.approvers) || bad_addr(&m.executors) {
        return dont("invalid_address");
    }
    for p in [&ap, &bp] {
        match p {
            PairVerdict::BadRate | PairVerdict::OddRate | PairVerdict::BadAccount(_) => {
                return dont("invalid_fee_pair")
            }
            _ => {}
        }
    }
    let mut c2 = cfg.clone();
    if let Some(v) = &m.approvers {
        c2.approvers = v.clone();
    }
    if let Some(v) = &m.executors {
        c2.executors = v.clone();
    }
    match ap {
        PairVerdict::Clear => c2.ask_fee = None,
        PairVerdict::Install(f) => c2.ask_fee = Some(f),
        _ => {}
    }
    match bp {
        PairVerdict::Clear => c2.bid_fee = None,
        PairVerdict::Install(f) => c2.bid_fee = Some(f),
        _ => {}
    }
    if let Some(v) = &m.ask_attrs {
        c2.ask_attrs = v.clone();
    }
    if let Some(v) = &m.bid_attrs {
        c2.bid_attrs = v.clone();
    }
    let mut e = Effects::default();
    e.cfg_after = Some(c2);
    e.attrs = vec![("action".into(), AttrExp::Exact("modify_contract".into()))];
    e.tags.push(match (asks_open, bids_open) {
        (false, false) => "book_empty",
        (true, false) => "asks_only",
        (false, true) => "bids_only",
        (true, true) => "both_sides",
    });
    Expect::Accept {
        alts: vec![e],
        must: false,
    }
}

// ------------------------------------------------------------------ instantiate / migrate

pub enum InstExpect {
    Accept(Cfg),
    Refuse(&'static str),
    DontCare(&'static str),
}

pub fn expect_instantiate(msg: &Value) -> InstExpect {
    let o = match msg.as_object() {
        Some(o) => o,
        None => return InstExpect::Refuse("malformed"),
    };
    macro_rules! g {
        ($e:expr) => {
            match $e {
                F::Ok(v) => v,
                F::Bad => return InstExpect::Refuse("malformed"),
                F::Unknown => return InstExpect::DontCare("spelling"),
            }
        };
    }
    let name = g!(f_str(o, "name"));
    let base = g!(f_str(o, "base_denom"));
    let convs = g!(f_list(o, "convertible_base_denoms"));
    let quotes = g!(f_list(o, "supported_quote_denoms"));
    let approvers = g!(f_list(o, "approvers"));
    let executors = g!(f_list(o, "executors"));
    let afr = g!(f_opt_str(o, "ask_fee_rate"));
    let afa = g!(f_opt_str(o, "ask_fee_account"));
    let bfr = g!(f_opt_str(o, "bid_fee_rate"));
    let bfa = g!(f_opt_str(o, "bid_fee_account"));
    let aattrs = g!(f_list(o, "ask_required_attributes"));
    let battrs = g!(f_list(o, "bid_required_attributes"));
    let precision = g!(f_u128(o, "price_precision"));
    let increment = g!(f_u128(o, "size_increment"));
    if name.is_empty() {
        return InstExpect::Refuse("name_empty");
    }
    if base.is_empty() {
        return InstExpect::Refuse("base_empty");
    }
    if quotes.is_empty() {
        return InstExpect::Refuse("quotes_empty");
    }
    if executors.is_empty() {
        return InstExpect::Refuse("executors_empty");
    }
    if precision > 18 {
        return InstExpect::Refuse("precision_above_18");
    }
    if increment < 1 {
        return InstExpect::Refuse("increment_zero");
    }
    if increment % 10u128.pow(precision as u32) != 0 {
        return InstExpect::Refuse("increment_not_multiple_of_10_pow_precision");
    }
    if approvers.iter().chain(executors.iter()).any(|a| !addr_ok(a)) {
        return InstExpect::Refuse("invalid_address");
    }
    let mut fees = [None, None];
    for (i, p) in [fee_pair(&afr, &afa), fee_pair(&bfr, &bfa)].into_iter().enumerate() {
        match p {
            PairVerdict::NotSupplied | PairVerdict::Clear => {}
            PairVerdict::Half => return InstExpect::Refuse("fee_pair_half_supplied"),
            PairVerdict::BadRate => return InstExpect::Refuse("fee_rate_unparseable"),
            PairVerdict::OddRate => return InstExpect::DontCare("rate_spelling"),
            PairVerdict::BadAccount(_) => return InstExpect::Refuse("fee_account_invalid"),
            PairVerdict::Install(f) => fees[i] = Some(f),
        }
    }
    let [ask_fee, bid_fee] = fees;
    InstExpect::Accept(Cfg {
        name,
        bind_name: String::new(),
        base_denom: base,
        convertibles: convs,
        quotes,
        approvers,
        executors,
        ask_fee,
        bid_fee,
        ask_attrs: aattrs,
        bid_attrs: battrs,
        precision,
        increment,
    })
}

#[derive(Clone, Copy, Debug, PartialEq)]
pub enum VersionClass {
    Triple(u64, u64, u64),
    /// build metadata, or a pre-release of a version above the minimum: whether that counts as
    /// "supported" is not what C14 is about
    PreOrBuild,
    /// pre-release of (a version not above) the minimum: older than the minimum by precedence
    PreReleaseBelowMin,
    Malformed,
}

pub fn version_class(s: &str) -> VersionClass {
    let core_end = s.find(|c| c == '-' || c == '+').unwrap_or(s.len());
    let core = &s[..core_end];
    let parts: Vec<&str> = core.split('.').collect();
    if parts.len() != 3 {
        return VersionClass::Malformed;
    }
    let mut n = [0u64; 3];
    for (i, p) in parts.iter().enumerate() {
        if p.is_empty() || !p.bytes().all(|b| b.is_ascii_digit()) {
            return VersionClass::Malformed;
        }
        if p.len() > 1 && p.starts_with('0') {
            return VersionClass::Malformed;
        }
        match p.parse::<u64>() {
            Ok(v) => n[i] = v,
            Err(_) => return VersionClass::Malformed,
        }
    }
    if core_end < s.len() {
        if s.as_bytes()[core_end] == b'-' && (n[0], n[1], n[2]) <= (0, 16, 2) && core_end + 1 < s.len() {
            return VersionClass::PreReleaseBelowMin;
        }
        if s.as_bytes()[core_end] == b'+' {
            // build metadata only: it does not take part in precedence, the version is its core
            let meta = &s[core_end + 1..];
            let ok = !meta.is_empty() && meta.split('.').all(|p| !p.is_empty() && p.bytes().all(|b| b.is_ascii_alphanumeric() || b == b'-'));
            if ok {
                return VersionClass::Triple(n[0], n[1], n[2]);
            }
            return VersionClass::Malformed;
        }
        return VersionClass::PreOrBuild;
    }
    VersionClass::Triple(n[0], n[1], n[2])
}

pub enum MigExpect {
    /// accepted; the configuration afterwards; whether event-log bids are converted
    Accept { cfg_after: Cfg, converts: bool },
    Refuse(&'static str),
    DontCare(&'static str),
}

pub fn expect_migrate(stored_version: Option<&str>, msg: &Value, cfg: &Cfg) -> MigExpect {
    let o = match msg.as_object() {
        Some(o) => o,
        None => return MigExpect::Refuse("malformed"),
    };
    macro_rules! g {
        ($e:expr) => {
            match $e {
                F::Ok(v) => v,
                F::Bad => return MigExpect::Refuse("malformed"),
                F::Unknown => return MigExpect::DontCare("spelling"),
            }
        };
    }
    let approvers = g!(f_opt_list(o, "approvers"));
    let afr = g!(f_opt_str(o, "ask_fee_rate"));
    let afa = g!(f_opt_str(o, "ask_fee_account"));
    let bfr = g!(f_opt_str(o, "bid_fee_rate"));
    let bfa = g!(f_opt_str(o, "bid_fee_account"));
    let aattrs = g!(f_opt_list(o, "ask_required_attributes"));
    let battrs = g!(f_opt_list(o, "bid_required_attributes"));
    let v = match stored_version {
        None => return MigExpect::Refuse("no_version_record"),
        Some(s) => version_class(s),
    };
    let (a, b, c) = match v {
        VersionClass::Malformed => return MigExpect::Refuse("version_unreadable"),
        VersionClass::PreOrBuild => return MigExpect::DontCare("prerelease_version"),
        VersionClass::PreReleaseBelowMin => return MigExpect::Refuse("prerelease_below_minimum"),
        VersionClass::Triple(a, b, c) => (a, b, c),
    };
    if (a, b, c) < (0, 16, 2) {
        return MigExpect::Refuse("version_below_minimum");
    }
    let ap = fee_pair(&afr, &afa);
    let bp = fee_pair(&bfr, &bfa);
    let mut c2 = cfg.clone();
    if let Some(v) = &approvers {
        if v.iter().any(|x| !addr_ok(x)) {
            return MigExpect::DontCare("invalid_override");
        }
        c2.approvers = v.clone();
    }
    for (i, p) in [ap, bp].into_iter().enumerate() {
        match p {
            PairVerdict::NotSupplied => {}
            PairVerdict::Clear => {
                if i == 0 {
                    c2.ask_fee = None
                } else {
                    c2.bid_fee = None
                }
            }
            PairVerdict::Install(f) => {
                if i == 0 {
                    c2.ask_fee = Some(f)
                } else {
                    c2.bid_fee = Some(f)
                }
            }
            _ => return MigExpect::DontCare("invalid_override"),
        }
    }
    if let Some(v) = aattrs {
        c2.ask_attrs = v;
    }
    if let Some(v) = battrs {
        c2.bid_attrs = v;
    }
    MigExpect::Accept {
        cfg_after: c2,
        converts: (a, b, c) < (0, 19, 1),
    }
}
