//! The deterministic executor: applies explicit steps to the simulated chain and evaluates
//! the oracles after each one. Generated runs and replays share this code path.

use crate::book::{
    self, ask_key, bid_key, classify, owed_ask, owed_bid, owed_total, AskClass, AskM, BidM, Book,
    Cfg, KeyClass,
};
use crate::chain::{Accepted, Chain, CoinS, Mech, Outcome, Refusal, TxFaults, TxResult};
use crate::dec::{self, Dec, Parsed};
use crate::model::{self, AttrExp, Ctx, Effects, Expect, InstExpect, Req};
use crate::rng::Fnv;
use crate::types::*;
use serde_json::Value;
use std::collections::{BTreeMap, BTreeSet};

pub type Enabled = [bool; 17];

pub fn enabled_all() -> Enabled {
    [true; 17]
}
pub fn enabled_only(p: &str) -> Enabled {
    let mut e = [false; 17];
    if let Some(i) = prop_index(p) {
        e[i] = true;
    }
    e
}

#[derive(Clone, Debug)]
pub struct StepReport {
    pub kind: String,
    pub accepted: bool,
    pub refusal: Option<String>,
    pub attrs: Vec<(String, String)>,
    pub sender: String,
    pub tags: Vec<&'static str>,
    /// hash of (request, outcome, storage, ledger) for the determinism log
    pub event_hash: u64,
}

pub struct Sim {
    pub spec: WorldSpec,
    pub chain: Chain,
    pub enabled: Enabled,
    pub step_no: usize,
    pub book: Book,
    pub cfg: Cfg,
    pub shadow: Shadow,
    /// cumulative contract-side flows attributed to each order: (side, id) -> denom -> amount
    pub order_acct: BTreeMap<(char, String), BTreeMap<String, i128>>,
    pub closed: BTreeSet<(char, String)>,
    pub cov: Cov,
    pub pending: Vec<Violation>,
    /// C12 relational: numeric fee rate in force when each side last became non-empty
    pub frozen_ask_rate: Option<Option<String>>,
    pub frozen_bid_rate: Option<Option<String>>,
    pub twin: Option<Box<Chain>>,
    pub twin_steps: u64,
    pub instantiated: bool,
    pub legacy_ids: BTreeSet<String>,
    pub event_log: Vec<(Vec<(String, String)>, String, u64)>,
    /// C11 reordering oracle: the chain as it was before the previous accepted order operation,
    /// that operation, and the orders it named
    pub prev_op: Option<PrevOp>,
    /// every observation of the step in which the reported violation occurred
    pub last_all: Vec<Violation>,
}

pub struct PrevOp {
    pub chain_before: Chain,
    pub sender: String,
    pub funds: Vec<CoinS>,
    pub msg: Value,
    pub asks: Vec<String>,
    pub bids: Vec<String>,
}

fn ledger_hash(c: &Chain) -> u64 {
    let mut h = Fnv::new();
    for ((a, d), v) in &c.ledger {
        if *v != 0 {
            h.str(a).str(d).bytes(&v.to_le_bytes());
        }
    }
    h.finish()
}
fn storage_hash(c: &Chain) -> u64 {
    let mut h = Fnv::new();
    for (k, v) in &c.storage.data {
        h.bytes(k).bytes(&[0]).bytes(v).bytes(&[1]);
    }
    h.finish()
}

impl Sim {
    /// Build the world and run instantiate (C13 is judged here).
    pub fn new(spec: &WorldSpec, enabled: Enabled) -> Sim {
        let mut chain = Chain::new(&spec.contract);
        chain.height = spec.height;
        chain.time_ns = spec.time_ns;
        chain.querier.markers = spec.markers.clone();
        chain.querier.marker_required_attrs = spec.marker_required_attrs.clone();
        chain.querier.marker_status = spec.marker_status.clone();
        chain.querier.attrs = spec.attrs.clone();
        let mut sim = Sim {
            spec: spec.clone(),
            chain,
            enabled,
            step_no: 0,
            book: Book::default(),
            cfg: Cfg {
                name: String::new(),
                bind_name: String::new(),
                base_denom: String::new(),
                convertibles: vec![],
                quotes: vec![],
                approvers: vec![],
                executors: vec![],
                ask_fee: None,
                bid_fee: None,
                ask_attrs: vec![],
                bid_attrs: vec![],
                precision: 0,
                increment: 1,
            },
            shadow: Shadow::default(),
            order_acct: BTreeMap::new(),
            closed: BTreeSet::new(),
            cov: Cov::new(),
            pending: vec![],
            frozen_ask_rate: None,
            frozen_bid_rate: None,
            twin: None,
            twin_steps: 0,
            instantiated: false,
            legacy_ids: BTreeSet::new(),
            event_log: vec![],
            prev_op: None,
            last_all: vec![],
        };
        sim.cov.runs = 1;
        if enabled.iter().filter(|b| **b).count() == 1 {
            sim.cov.only = enabled.iter().position(|b| *b);
        }
        sim.do_instantiate();
        sim
    }

    pub fn flag(
        &mut self,
        props: &[&str],
        oracle: &str,
        kind: &str,
        qual: &str,
        detail: String,
    ) {
        self.pending.push(Violation {
            props: props.iter().map(|s| s.to_string()).collect(),
            oracle: oracle.to_string(),
            kind: kind.to_string(),
            qual: qual.to_string(),
            step: self.step_no,
            detail,
        });
    }

    /// first pending violation that concerns an enabled property
    pub fn take_violation(&mut self) -> Option<Violation> {
        let en = self.enabled;
        let pos = self.pending.iter().position(|v| {
            v.props
                .iter()
                .any(|p| prop_index(p).map(|i| en[i]).unwrap_or(false))
        });
        let r = pos.map(|i| self.pending[i].clone());
        if r.is_some() {
            self.last_all = self.pending.clone();
        }
        self.pending.clear();
        r
    }

    fn do_instantiate(&mut self) {
        let msg = self.spec.instantiate.clone();
        let exp = model::expect_instantiate(&msg);
        let before = self.chain.storage.data.clone();
        let r = self.chain.instantiate(&self.spec.creator.clone(), &msg);
        self.cov.instantiate_cases += 1;
        let (dec_s, reason): (&str, String) = match (&exp, &r) {
            (InstExpect::Accept(_), Ok(_)) => ("accept", String::new()),
            (InstExpect::Refuse(rs), Err(_)) => ("refuse", rs.to_string()),
            (InstExpect::DontCare(rs), _) => ("dontcare", rs.to_string()),
            (InstExpect::Accept(_), Err(e)) => {
                let t = e.text();
                self.flag(
                    &["C13"],
                    "L2.instantiate.refused_coherent",
                    "instantiate",
                    "",
                    format!("coherent configuration refused: {}", t),
                );
                ("accept", "refused".into())
            }
            (InstExpect::Refuse(rs), Ok(_)) => {
                self.flag(
                    &["C13"],
                    "L2.instantiate.accepted_incoherent",
                    "instantiate",
                    rs,
                    format!("incoherent configuration accepted ({})", rs),
                );
                ("refuse", rs.to_string())
            }
        };
        let mask = inst_shape(&msg);
        self.cov
            .hit("C13", hash_strs(&[dec_s, &reason, &mask]), true);
        match r {
            Ok(acc) => {
                self.instantiated = true;
                match book::read_cfg(&self.chain.storage) {
                    Ok(c) => {
                        if let InstExpect::Accept(want) = &exp {
                            if &c != want {
                                self.flag(
                                    &["C13"],
                                    "L2.instantiate.stored_config",
                                    "instantiate",
                                    "",
                                    format!("stored configuration {:?} differs from request {:?}", c, want),
                                );
                            }
                        }
                        self.cfg = c;
                    }
                    Err(e) => self.flag(
                        &["C13"],
                        "L2.instantiate.no_config",
                        "instantiate",
                        "",
                        format!("configuration not readable after instantiate: {}", e.0),
                    ),
                }
                let ver = book::read_version(&self.chain.storage);
                let want_v = (
                    ats_smart_contract::version_info::CRATE_NAME.to_string(),
                    ats_smart_contract::version_info::PACKAGE_VERSION.to_string(),
                );
                if ver.as_ref() != Some(&want_v) {
                    self.flag(
                        &["C13"],
                        "L2.instantiate.version",
                        "instantiate",
                        "",
                        format!("version record {:?}, expected {:?}", ver, want_v),
                    );
                }
                if !acc.xfers.is_empty() || !acc.foreign_msgs.is_empty() {
                    self.flag(
                        &["C13", "C10"],
                        "L2.instantiate.messages",
                        "instantiate",
                        "",
                        "instantiate emitted messages".into(),
                    );
                }
                // seed legacy orders behind the contract's back, with matching ledger credit
                let seeds = self.spec.seeds.clone();
                for s in &seeds {
                    let bytes = serde_json::to_vec(&s.value).unwrap();
                    if s.side == "ask" {
                        if let Ok(a) = book::decode_ask_value(&s.value) {
                            self.chain.storage.data.insert(ask_key(&s.key_id), bytes);
                            let acct = self.order_acct.entry(('a', s.key_id.clone())).or_default();
                            for (d, x) in owed_ask(&a) {
                                *acct.entry(d.clone()).or_insert(0) += x as i128;
                                let (payer, _) = match (&a.class, d == a.base) {
                                    (AskClass::Ready { approver, .. }, false) => (approver.clone(), 0),
                                    _ => (a.owner.clone(), 0),
                                };
                                Chain::credit(&mut self.chain.ledger, &payer, &d, -(x as i128));
                                let c = self.chain.contract.clone();
                                Chain::credit(&mut self.chain.ledger, &c, &d, x as i128);
                            }
                            self.shadow.asks.insert(
                                s.key_id.clone(),
                                ShadowAsk {
                                    remaining: a.size,
                                    state: a.class.tag().to_string(),
                                    owner: a.owner.clone(),
                                    base: a.base.clone(),
                                    quote: a.quote.clone(),
                                    price: a.price.clone(),
                                    born: self.chain.height,
                                },
                            );
                            self.legacy_ids.insert(s.key_id.clone());
                        }
                    } else if let Ok(b) = book::decode_bid_value(&s.value) {
                        self.chain.storage.data.insert(bid_key(&s.key_id), bytes);
                        let acct = self.order_acct.entry(('b', s.key_id.clone())).or_default();
                        for (d, x) in owed_bid(&b) {
                            *acct.entry(d.clone()).or_insert(0) += x as i128;
                            Chain::credit(&mut self.chain.ledger, &b.owner, &d, -(x as i128));
                            let c = self.chain.contract.clone();
                            Chain::credit(&mut self.chain.ledger, &c, &d, x as i128);
                        }
                        self.shadow.bids.insert(
                            s.key_id.clone(),
                            ShadowBid {
                                remaining: b.unfilled(),
                                owner: b.owner.clone(),
                                quote: b.quote_denom.clone(),
                                price: b.price.clone(),
                                born: self.chain.height,
                            },
                        );
                        self.legacy_ids.insert(s.key_id.clone());
                    }
                }
                self.book = book::scan_book(&self.chain.storage).unwrap_or_default();
                self.track_freeze(&Book::default());
            }
            Err(_) => {
                if self.chain.storage.data != before {
                    self.flag(
                        &["C13"],
                        "L2.instantiate.refused_changed_state",
                        "instantiate",
                        "",
                        "refused instantiate left state behind".into(),
                    );
                }
            }
        }
    }

    /// C12 relational bookkeeping: remember the numeric rate in force when a side became non-empty
    pub fn track_freeze(&mut self, before: &Book) {
        if self.book.asks.is_empty() {
            self.frozen_ask_rate = None;
        } else if before.asks.is_empty() || self.frozen_ask_rate.is_none() {
            self.frozen_ask_rate = Some(self.cfg.ask_fee.as_ref().map(|f| f.rate.clone()));
        }
        if self.book.bids.is_empty() {
            self.frozen_bid_rate = None;
        } else if before.bids.is_empty() || self.frozen_bid_rate.is_none() {
            self.frozen_bid_rate = Some(self.cfg.bid_fee.as_ref().map(|f| f.rate.clone()));
        }
    }

    pub fn apply(&mut self, step: &Step) -> (StepReport, Option<Violation>) {
        let rep = self.apply_inner(step);
        let v = self.take_violation();
        (rep, v)
    }

    /// like `apply` but hands back every observation of the step, for all properties
    pub fn apply_collect(&mut self, step: &Step, out: &mut Vec<Violation>) -> StepReport {
        let rep = self.apply_inner(step);
        out.append(&mut self.pending);
        rep
    }

    fn apply_inner(&mut self, step: &Step) -> StepReport {
        self.step_no += 1;
        self.cov.steps += 1;
        let rep = match step {
            Step::Exec {
                sender,
                funds,
                msg,
                faults,
            } => self.exec(sender, funds, msg, faults),
            Step::SetMarker { denom, kind } => {
                self.prev_op = None;
                self.chain.querier.markers.insert(denom.clone(), *kind);
                if let Some(t) = self.twin.as_mut() {
                    t.querier.markers.insert(denom.clone(), *kind);
                }
                self.cov.fault("F6_marker_table_change");
                self.simple_report("set_marker")
            }
            Step::SetAttrs { account, names } => {
                self.prev_op = None;
                self.chain.querier.attrs.insert(account.clone(), names.clone());
                if let Some(t) = self.twin.as_mut() {
                    t.querier.attrs.insert(account.clone(), names.clone());
                }
                self.cov.fault("F7_attribute_set_change");
                self.simple_report("set_attrs")
            }
            Step::Restart => {
                let before = self.chain.storage.data.clone();
                self.chain.restart();
                if self.chain.storage.data != before {
                    self.flag(&["C11"], "harness.restart", "restart", "", "restart changed storage".into());
                }
                self.cov.fault("F8_restart");
                self.simple_report("restart")
            }
            Step::Advance { blocks } => {
                self.chain.height += blocks;
                self.chain.time_ns += blocks * 5_000_000_000;
                if let Some(t) = self.twin.as_mut() {
                    t.height += blocks;
                    t.time_ns += blocks * 5_000_000_000;
                }
                self.cov.blocks += blocks;
                if *blocks > 100 {
                    self.cov.fault("F10_env_jump");
                }
                self.simple_report("advance")
            }
            Step::Migrate {
                set_version,
                msg,
                v2_ids,
                v2_seed,
                twice,
                twin,
            } => crate::migrate::migrate_step(self, set_version, msg, v2_ids, *v2_seed, *twice, *twin),
        };
        if self.instantiated {
            if self.enabled[prop_index("C06").unwrap()] {
                crate::probes::probe_exit(self);
                crate::probes::probe_drain(self);
            }
            if self.enabled[prop_index("C05").unwrap()] {
                crate::probes::probe_auth(self);
            }
            if self.enabled[prop_index("C16").unwrap()] {
                crate::probes::probe_query(self);
            }
        }
        rep
    }

    fn simple_report(&self, kind: &str) -> StepReport {
        let mut h = Fnv::new();
        h.str(kind).u64(storage_hash(&self.chain)).u64(ledger_hash(&self.chain));
        StepReport {
            kind: kind.to_string(),
            accepted: true,
            refusal: None,
            attrs: vec![],
            sender: String::new(),
            tags: vec![],
            event_hash: h.finish(),
        }
    }

    pub fn ctx<'a>(
        &'a self,
        sender: &'a str,
        funds: &'a [CoinS],
        served: &'a [crate::seams::Served],
        book: &'a Book,
        cfg: &'a Cfg,
    ) -> Ctx<'a> {
        Ctx {
            cfg,
            book,
            contract: &self.chain.contract,
            sender,
            funds,
            markers: &self.chain.querier.markers,
            attrs: &self.chain.querier.attrs,
            served,
        }
    }

    fn exec(&mut self, sender: &str, funds: &[CoinS], msg: &Value, faults: &TxFaults) -> StepReport {
        let req = model::parse_req(msg);
        let kind = req.kind().to_string();
        let book_pre = self.book.clone();
        let cfg_pre = self.cfg.clone();
        let storage_pre = self.chain.storage.data.clone();
        let ledger_pre = self.chain.ledger.clone();
        let version_pre = storage_pre.get(b"version_info".as_slice()).cloned();

        let c11 = self.enabled[prop_index("C11").unwrap()];
        let chain_before = if c11 && kind != "modify_contract" { Some(self.chain.clone()) } else { None };
        let res = self.chain.deliver(sender, funds, msg, faults);
        if res.faults_fired.gas_abort {
            self.cov.fault("F2_gas_abort");
        }
        if res.faults_fired.dispatch_fail {
            self.cov.fault("F1_dispatch_failure");
        }
        if res.faults_fired.query_fail {
            self.cov.fault("F6F7_query_failure");
        }

        // ---- decode post-state
        let book_post = match book::scan_book(&self.chain.storage) {
            Ok(b) => b,
            Err(e) => {
                self.flag(
                    &["C11"],
                    "I-wf.undecodable",
                    &kind,
                    "",
                    format!("stored order not decodable after step: {}", e.0),
                );
                book_pre.clone()
            }
        };
        let cfg_post = match book::read_cfg(&self.chain.storage) {
            Ok(c) => c,
            Err(e) => {
                self.flag(&["C11", "C12"], "I-frame.config_unreadable", &kind, "", e.0);
                cfg_pre.clone()
            }
        };

        // ---- expectation from the pre-state and the answers served
        let exp = {
            let cx = self.ctx(sender, funds, &res.served, &book_pre, &cfg_pre);
            model::expect(&req, &cx)
        };
        let accepted = res.outcome.is_accepted();
        {
            let e = self.cov.kinds.entry(kind.clone()).or_insert([0; 3]);
            e[0] += 1;
            if accepted {
                e[1] += 1
            } else {
                e[2] += 1
            }
        }

        let mut tags: Vec<&'static str> = vec![];
        self.judge(
            &req, &kind, sender, funds, &res, &exp, &book_pre, &book_post, &cfg_pre, &cfg_post,
            &mut tags,
        );

        // ---- L1 invariants
        if let Some((_, d)) = &res.overdraft {
            self.flag(&["C01"], "I-fund", &kind, "", d.clone());
        }
        if !accepted {
            // what the contract asked for is judged even when the chain could not carry it out
            if let Some(acc) = res.emitted.clone() {
                self.c10_messages(&kind, sender, &acc, &res, &tags);
            }
            // rollback is the chain's; nothing else to check
            if self.chain.storage.data != storage_pre || self.chain.ledger != ledger_pre {
                self.flag(&["C01"], "harness.rollback", &kind, "", "rollback incomplete".into());
            }
        } else {
            let acc = match &res.outcome {
                Outcome::Accepted(a) => a.clone(),
                _ => unreachable!(),
            };
            self.book = book_post.clone();
            self.cfg = cfg_post.clone();
            self.l1_invariants(&req, &kind, &res, &book_pre, &storage_pre, &cfg_pre, &version_pre);
            self.c10_messages(&kind, sender, &acc, &res, &tags);
            // C17 shadow book
            self.shadow.apply(&acc.attrs, sender, self.chain.height);
            self.event_log
                .push((acc.attrs.clone(), sender.to_string(), self.chain.height));
            self.c17_shadow(&kind);
            self.c17_truth(&req, &kind, &acc, &res, &book_pre, &cfg_pre);
            self.c03_limit_prices(&req, &kind, &acc, &book_pre, &cfg_pre);
            self.track_freeze(&book_pre);
            self.c12_relational(&req, &kind, &exp);
            // abstract state / transition coverage
            let sh = book_shape_hash(&self.book, &self.cfg);
            self.cov.states.insert(sh);
            let mut th = Fnv::new();
            th.str(&kind).u64(book_shape_hash(&book_pre, &cfg_pre)).u64(sh);
            self.cov.transitions.insert(th.finish());
        }

        // ---- C11 reordering oracle: two consecutive accepted operations on disjoint orders commute
        if c11 {
            let (an, bn) = req.named();
            if faults.any() {
                // a faulted delivery is not reproducible on the fork without its fault
                self.prev_op = None;
            } else if accepted && kind != "modify_contract" {
                if let Some(p) = self.prev_op.take() {
                    let disjoint = !an.iter().any(|x| p.asks.contains(x)) && !bn.iter().any(|x| p.bids.contains(x));
                    if disjoint {
                        let mut fork = p.chain_before.clone();
                        fork.height = self.chain.height;
                        fork.time_ns = self.chain.time_ns;
                        fork.querier.markers = self.chain.querier.markers.clone();
                        fork.querier.attrs = self.chain.querier.attrs.clone();
                        let r1 = fork.deliver(sender, funds, msg, &TxFaults::default());
                        let r2 = fork.deliver(&p.sender, &p.funds, &p.msg, &TxFaults::default());
                        let mut h = Fnv::new();
                        h.str("reorder").str(&kind).str(model::parse_req(&p.msg).kind());
                        self.cov.hit("C11", h.finish(), true);
                        self.cov.probe("reordered_pair_of_independent_operations");
                        let mut l1 = fork.ledger.clone();
                        l1.retain(|_, v| *v != 0);
                        let mut l2 = self.chain.ledger.clone();
                        l2.retain(|_, v| *v != 0);
                        if !r1.outcome.is_accepted() || !r2.outcome.is_accepted() || fork.storage.data != self.chain.storage.data || l1 != l2 {
                            self.flag(
                                &["C11"],
                                "C11.independent_operations_do_not_commute",
                                &kind,
                                "",
                                format!(
                                    "two consecutive accepted operations on different orders ({} then {}) give a different result when delivered in the other order (accepted: {} / {})",
                                    model::parse_req(&p.msg).kind(),
                                    kind,
                                    r1.outcome.is_accepted(),
                                    r2.outcome.is_accepted()
                                ),
                            );
                        }
                    }
                }
                if let Some(cb) = chain_before {
                    self.prev_op = Some(PrevOp {
                        chain_before: cb,
                        sender: sender.to_string(),
                        funds: funds.to_vec(),
                        msg: msg.clone(),
                        asks: an,
                        bids: bn,
                    });
                }
            } else if accepted {
                self.prev_op = None;
            }
        }

        // ---- twin continuation (C15)
        if self.twin.is_some() {
            self.twin_step(sender, funds, msg, &res, &kind);
        }

        let mut h = Fnv::new();
        h.str(&msg.to_string())
            .str(sender)
            .str(if accepted { "ok" } else { "no" })
            .u64(storage_hash(&self.chain))
            .u64(ledger_hash(&self.chain));
        let (attrs, refusal) = match &res.outcome {
            Outcome::Accepted(a) => (a.attrs.clone(), None),
            Outcome::Refused(r) => (vec![], Some(format!("{}:{}", r.class(), r.text()))),
        };
        StepReport {
            kind,
            accepted,
            refusal,
            attrs,
            sender: sender.to_string(),
            tags,
            event_hash: h.finish(),
        }
    }

    // ------------------------------------------------------------ L2

    #[allow(clippy::too_many_arguments)]
    fn judge(
        &mut self,
        req: &Req,
        kind: &str,
        sender: &str,
        funds: &[CoinS],
        res: &TxResult,
        exp: &Expect,
        book_pre: &Book,
        book_post: &Book,
        cfg_pre: &Cfg,
        cfg_post: &Cfg,
        tags_out: &mut Vec<&'static str>,
    ) {
        let accepted = res.outcome.is_accepted();
        self.cov.l2_decisions += 1;
        let dec_props = decision_props(kind);
        match exp {
            Expect::DontCare { reason } => {
                *self.cov.dontcare.entry(reason).or_insert(0) += 1;
                self.hit_decision(kind, "dontcare", reason, &[], cfg_pre, req, book_pre);
            }
            Expect::Refuse { reason } => {
                self.hit_decision(kind, "refuse", reason, &[], cfg_pre, req, book_pre);
                *self
                    .cov
                    .refusal_reasons
                    .entry(format!("{}:{}", kind, reason))
                    .or_insert(0) += 1;
                if accepted {
                    let mut props: Vec<&str> = dec_props.to_vec();
                    if reason.starts_with("not_") {
                        props = vec!["C05"];
                    } else if *reason == "fee_amount" || *reason == "fee_missing" || *reason == "fee_denom" {
                        props.push("C09");
                    } else if *reason == "ask_pending" {
                        props.push("C08");
                    } else if *reason == "quote_mismatch" {
                        // settling an ask in a denomination it did not name pays nobody their due
                        props.push("C02");
                    } else if *reason == "id_in_use" {
                        props.push("C11");
                        // re-recording an approved ask erases its approval and the approver's escrow record
                        let (an, _) = req.named();
                        if an.iter().any(|i| matches!(book_pre.asks.get(i).map(|a| &a.class), Some(AskClass::Ready { .. }))) {
                            props.push("C08");
                        }
                    } else if *reason == "bid_fee_unpayable" {
                        // C03 does not forbid the match; but no settlement of it can satisfy C02/C17
                        props = vec!["C02", "C17"];
                    } else if *reason == "ask_fee_unpayable" {
                        props = vec!["C02", "C09"];
                    } else if kind == "execute_match" && (*reason == "gross_not_integral" || *reason == "original_gross_not_integral") {
                        // what is due (p*s, or (bid price - p)*s) is not a whole number of units:
                        // whatever was paid, it was not "exactly its due" (C02), besides C03
                        props.push("C02");
                    }
                    if matches!(kind, "cancel_ask" | "expire_ask" | "reject_ask") {
                        // a reversal that should not have happened and paid a recorded approver
                        // contradicts "returns to the approver exactly the unconsumed part" (C08)
                        if let Outcome::Accepted(acc) = &res.outcome {
                            let approvers: Vec<&String> = book_pre
                                .asks
                                .values()
                                .filter_map(|a| match &a.class {
                                    AskClass::Ready { approver, .. } => Some(approver),
                                    _ => None,
                                })
                                .collect();
                            if acc.xfers.iter().any(|x| approvers.contains(&&x.to)) && !props.contains(&"C08") {
                                props.push("C08");
                            }
                        }
                    }
                    self.flag(
                        &props,
                        "L2.accepted_but_must_refuse",
                        kind,
                        reason,
                        format!(
                            "request accepted although the statement makes it inadmissible ({}) : {} from {} funds {:?}",
                            reason,
                            req_brief(req),
                            sender,
                            funds
                        ),
                    );
                }
            }
            Expect::Accept { alts, must } => {
                let t0: Vec<&'static str> = alts[0].tags.clone();
                self.hit_decision(kind, "accept", "", &t0, cfg_pre, req, book_pre);
                match &res.outcome {
                    Outcome::Refused(r) => {
                        if r.injected() {
                            return;
                        }
                        if matches!(r, Refusal::Dispatch(_)) && res.overdraft.is_some() {
                            return; // reported as I-fund
                        }
                        if *must {
                            let mut props: Vec<&str> = match kind {
                                "execute_match" => vec!["C03"],
                                "create_ask" | "create_bid" => vec!["C07"],
                                _ => vec!["C06"],
                            };
                            if r.text().contains("Total (price * size) must be an integer") {
                                props.push("C13");
                            }
                            if matches!(kind, "cancel_ask" | "expire_ask") {
                                // "a pending ask can be cancelled, expired or rejected" (C08)
                                let (an, _) = req.named();
                                if an.iter().any(|i| book_pre.asks.get(i).map(|a| a.class != AskClass::Plain).unwrap_or(false)) {
                                    props.push("C08");
                                }
                            }
                            if kind == "create_bid" && r.text().contains("Fee size") {
                                // a correctly computed fee was refused: the fee demanded at entry is wrong
                                props.push("C09");
                            }
                            let q = refusal_qual(r);
                            self.flag(
                                &props,
                                "L2.refused_but_must_accept",
                                kind,
                                &q,
                                format!(
                                    "admissible request refused ({}: {}): {} from {}",
                                    r.class(),
                                    r.text(),
                                    req_brief(req),
                                    sender
                                ),
                            );
                        } else {
                            *self
                                .cov
                                .soft_refusals
                                .entry(format!("{}:{}", kind, r.text()))
                                .or_insert(0) += 1;
                        }
                    }
                    Outcome::Accepted(acc) => {
                        self.compare_effects(
                            req, kind, sender, funds, res, acc, alts, book_pre, book_post, cfg_pre,
                            cfg_post, tags_out,
                        );
                    }
                }
            }
        }
    }

    #[allow(clippy::too_many_arguments)]
    fn hit_decision(
        &mut self,
        kind: &str,
        decision: &str,
        reason: &str,
        tags: &[&'static str],
        cfg: &Cfg,
        req: &Req,
        book: &Book,
    ) {
        let mut h = Fnv::new();
        h.str(kind).str(decision).str(reason);
        for t in tags {
            h.str(t);
        }
        h.u128(cfg.precision).u128(cfg.increment);
        // request magnitude buckets make "distinct" mean distinct in shape, not in every amount
        match req {
            Req::ExecuteMatch { ask_id, bid_id, price, size } => {
                h.str(price).u128(*size);
                if let (Some(a), Some(b)) = (book.asks.get(ask_id), book.bids.get(bid_id)) {
                    h.u128(a.size).u128(b.unfilled()).str(&a.price).str(&b.price);
                }
            }
            Req::CreateAsk { price, size, .. } => {
                h.str(price).u128(*size);
            }
            Req::CreateBid { price, size, fee, .. } => {
                h.str(price).u128(*size).u128(fee.as_ref().map(|f| f.1).unwrap_or(0));
            }
            Req::RejectAsk { size, .. } | Req::RejectBid { size, .. } => {
                h.u128(size.unwrap_or(0));
            }
            _ => {}
        }
        let hv = h.finish();
        let nontrivial = decision != "dontcare";
        match kind {
            "execute_match" => self.cov.hit("C03", hv, nontrivial),
            "create_ask" | "create_bid" => self.cov.hit("C07", hv, nontrivial),
            "approve_ask" => self.cov.hit("C08", hv, nontrivial),
            "modify_contract" => self.cov.hit("C12", hv, nontrivial),
            "cancel_ask" | "cancel_bid" | "expire_ask" | "expire_bid" | "reject_ask" | "reject_bid" => {
                if decision == "refuse" {
                    self.cov.hit("C04", hv, nontrivial)
                }
            }
            _ => {}
        }
    }

    #[allow(clippy::too_many_arguments)]
    fn compare_effects(
        &mut self,
        req: &Req,
        kind: &str,
        sender: &str,
        funds: &[CoinS],
        res: &TxResult,
        acc: &Accepted,
        alts: &[Effects],
        book_pre: &Book,
        book_post: &Book,
        cfg_pre: &Cfg,
        cfg_post: &Cfg,
        tags_out: &mut Vec<&'static str>,
    ) {
        // expected net deltas for each alternative
        let contract = self.chain.contract.clone();
        let mut best: Option<(usize, usize)> = None; // (mismatch score, index)
        let mut verdicts: Vec<(bool, bool, Vec<String>)> = vec![];
        for (i, e) in alts.iter().enumerate() {
            let mut want: BTreeMap<(String, String), i128> = BTreeMap::new();
            for c in funds {
                *want.entry((sender.to_string(), c.denom.clone())).or_insert(0) -= c.amt() as i128;
                *want.entry((contract.clone(), c.denom.clone())).or_insert(0) += c.amt() as i128;
            }
            for x in &e.xfers {
                *want.entry((x.from.clone(), x.denom.clone())).or_insert(0) -= x.amount as i128;
                *want.entry((x.to.clone(), x.denom.clone())).or_insert(0) += x.amount as i128;
            }
            want.retain(|_, v| *v != 0);
            let deltas_ok = want == res.deltas;
            // expected book
            let mut wb = book_pre.clone();
            for (id, a) in &e.asks {
                match a {
                    Some(a) => {
                        wb.asks.insert(id.clone(), a.clone());
                    }
                    None => {
                        wb.asks.remove(id);
                    }
                }
            }
            for (id, b) in &e.bids {
                match b {
                    Some(b) => {
                        wb.bids.insert(id.clone(), b.clone());
                    }
                    None => {
                        wb.bids.remove(id);
                    }
                }
            }
            let book_ok = &wb == book_post;
            let mut attr_bad: Vec<String> = vec![];
            for (k, want_v) in &e.attrs {
                let got = acc.attrs.iter().find(|(a, _)| a == k).map(|(_, v)| v.clone());
                let ok = match (want_v, &got) {
                    (AttrExp::Exact(w), Some(g)) => w == g,
                    (AttrExp::Numeric(w), Some(g)) => match (dec::parse(w), dec::parse(g)) {
                        (Parsed::Ok(a), Parsed::Ok(b)) => a.eq_val(&b),
                        // a spelling the model does not read: judge the strings
                        _ => w == g,
                    },
                    (_, None) => false,
                };
                if !ok {
                    attr_bad.push(format!("{}: expected {:?}, got {:?}", k, want_v, got));
                }
            }
            let score = (!deltas_ok as usize) * 4 + (!book_ok as usize) * 2 + (!attr_bad.is_empty()) as usize;
            if best.map(|(s, _)| score < s).unwrap_or(true) {
                best = Some((score, i));
            }
            verdicts.push((deltas_ok, book_ok, attr_bad));
        }
        let (_, bi) = best.unwrap();
        let e = &alts[bi];
        let (deltas_ok, book_ok, attr_bad) = &verdicts[bi];
        *tags_out = e.tags.clone();
        for t in &e.tags {
            match *t {
                "tie" => self.cov.probe("tie_hit"),
                "bidfee_zero" | "fee_rounds_to_zero" | "askfee_zero" => self.cov.probe("fee_rounded_to_zero"),
                "feerefund_zero" => self.cov.probe("improved_fill_zero_fee_refund"),
                "non_lot_size" | "non_lot_remainder" => self.cov.probe("non_lot_size_or_remainder"),
                "legacy_id" => self.cov.probe("legacy_id_operation"),
                "askfee_whole" => self.cov.probe("ask_fee_equals_proceeds"),
                "later_fill" => self.cov.probe("later_fill_of_same_bid"),
                _ => {}
            }
        }
        if self.cov.cells.len() < 4000 {
            let mut t: Vec<&str> = e.tags.iter().copied().filter(|t| *t != "tie" && *t != "legacy_id").collect();
            t.sort();
            *self.cov.cells.entry(format!("{}:{}", kind, t.join(","))).or_insert(0) += 1;
        }
        // coverage fingerprints of the amounts judged
        let mut h = Fnv::new();
        h.str(kind);
        for t in &e.tags {
            h.str(t);
        }
        for x in &e.xfers {
            h.u128(x.amount).str(&x.denom);
        }
        let hv = h.finish();
        match kind {
            "execute_match" => {
                self.cov.hit("C02", hv, true);
                self.cov.hit("C09", hv, e.ask_fee > 0 || e.bid_fee > 0 || e.tags.iter().any(|t| t.contains("fee")));
            }
            "create_bid" => self.cov.hit("C09", hv, e.tags.iter().any(|t| t.contains("fee"))),
            "cancel_ask" | "cancel_bid" | "expire_ask" | "expire_bid" | "reject_ask" | "reject_bid" => {
                self.cov.hit("C04", hv, true);
                if kind.ends_with("bid") {
                    self.cov.hit("C09", hv, e.tags.iter().any(|t| t.contains("fee")));
                }
            }
            _ => {}
        }
        self.cov.hit("C17", hv, true);

        let qual = e.tags.join(",");
        if !deltas_ok {
            let props: Vec<&str> = match kind {
                "execute_match" => {
                    if e.tags.iter().any(|t| t.contains("fee")) {
                        vec!["C02", "C09"]
                    } else {
                        vec!["C02"]
                    }
                }
                "create_ask" | "create_bid" => vec!["C07"],
                "approve_ask" => vec!["C08"],
                "modify_contract" => vec!["C12"],
                _ => {
                    let mut p = vec!["C04"];
                    if e.tags.contains(&"approved") {
                        p.push("C08");
                    }
                    if e.tags.iter().any(|t| t.starts_with("fee_return")) {
                        p.push("C09");
                    }
                    p
                }
            };
            let mut want_s = String::new();
            for x in &e.xfers {
                want_s.push_str(&format!("{}->{} {}{}; ", x.from, x.to, x.amount, x.denom));
            }
            self.flag(
                &props,
                "L2.payouts",
                kind,
                &qual,
                format!(
                    "net balance changes differ from the statement: expected transfers [{}] (+funds {:?}), observed deltas {:?}; request {}",
                    want_s,
                    funds,
                    res.deltas,
                    req_brief(req)
                ),
            );
        }
        if !book_ok {
            let mut props: Vec<&str> = vec!["C11"];
            match kind {
                "execute_match" => props.push("C02"),
                "create_ask" | "create_bid" => props.push("C07"),
                "approve_ask" => props.push("C08"),
                "modify_contract" => props.push("C12"),
                _ => props.push("C04"),
            }
            if e.tags.contains(&"approved") && !props.contains(&"C08") {
                props.push("C08");
            }
            if e.tags.iter().any(|t| t.contains("fee")) {
                props.push("C09");
            }
            let (ai, bi2) = req.named();
            let mut d = String::new();
            for id in ai {
                d.push_str(&format!("ask {}: {:?}; ", id, book_post.asks.get(&id)));
            }
            for id in bi2 {
                d.push_str(&format!("bid {}: {:?}; ", id, book_post.bids.get(&id)));
            }
            self.flag(
                &props,
                "L2.book",
                kind,
                &qual,
                format!(
                    "book after the step differs from the statement; expected changes asks={:?} bids={:?}; observed {}",
                    e.asks, e.bids, d
                ),
            );
        }
        if let Some(c2) = &e.cfg_after {
            self.cov.hit(
                "C12",
                hash_strs(&["installed", &format!("{:?}", c2)]),
                true,
            );
            if c2 != cfg_post {
                // role lists that are not the ones requested also falsify "only configured
                // executors / approvers" after a configuration change (C05)
                let roles_differ = c2.executors != cfg_post.executors || c2.approvers != cfg_post.approvers;
                let props: Vec<&str> = if roles_differ { vec!["C12", "C05"] } else { vec!["C12"] };
                self.flag(
                    &props,
                    "L2.config_installed",
                    kind,
                    &qual,
                    format!("configuration after change {:?}, expected {:?}", cfg_post, c2),
                );
            }
        } else if cfg_post != cfg_pre {
            self.flag(
                &["C12", "C11"],
                "I-frame.config_changed_by_order_operation",
                kind,
                "",
                format!("configuration changed by {}", kind),
            );
        }
        if !attr_bad.is_empty() {
            self.flag(
                &["C17"],
                "L2.attributes",
                kind,
                &qual,
                format!("response attributes untruthful: {}", attr_bad.join("; ")),
            );
        }
    }

    // ------------------------------------------------------------ L1

    #[allow(clippy::too_many_arguments)]
    fn l1_invariants(
        &mut self,
        req: &Req,
        kind: &str,
        res: &TxResult,
        book_pre: &Book,
        storage_pre: &BTreeMap<Vec<u8>, Vec<u8>>,
        cfg_pre: &Cfg,
        version_pre: &Option<Vec<u8>>,
    ) {
        let contract = self.chain.contract.clone();
        // I-cons
        let mut sums: BTreeMap<String, i128> = BTreeMap::new();
        for ((_, d), v) in &res.deltas {
            *sums.entry(d.clone()).or_insert(0) += v;
        }
        if sums.values().any(|v| *v != 0) {
            self.flag(&["C01"], "I-cons", kind, "", format!("funds created or destroyed: {:?}", sums));
        }
        // I-solv
        let owed = owed_total(&self.book);
        let held: BTreeMap<String, u128> = self
            .chain
            .contract_balances()
            .into_iter()
            .map(|(d, v)| (d, v.max(0) as u128))
            .collect();
        let neg = self.chain.contract_balances().values().any(|v| *v < 0);
        let moved = !res.deltas.is_empty();
        {
            let mut h = Fnv::new();
            h.str(kind);
            for (d, v) in &owed {
                h.str(d).u128(*v);
            }
            self.cov.hit("C01", h.finish(), moved);
        }
        if neg || owed != held {
            let mut q = String::new();
            for d in owed.keys().chain(held.keys()) {
                let o = *owed.get(d).unwrap_or(&0) as i128;
                let hh = *held.get(d).unwrap_or(&0) as i128;
                if o != hh && !q.contains(if hh > o { "stranded" } else { "short" }) {
                    if !q.is_empty() {
                        q.push(',');
                    }
                    q.push_str(if hh > o { "stranded" } else { "short" });
                }
            }
            self.flag(
                &["C01"],
                "I-solv",
                kind,
                &q,
                format!("contract holds {:?} but open orders are owed {:?}", held, owed),
            );
        }
        // per-order accounts (I-step, cumulative)
        let (asks_named, bids_named) = req.named();
        let mut cdelta: BTreeMap<String, i128> = BTreeMap::new();
        for ((a, d), v) in &res.deltas {
            if a == &contract {
                cdelta.insert(d.clone(), *v);
            }
        }
        let mut ask_denoms: BTreeSet<String> = BTreeSet::new();
        let mut bid_denoms: BTreeSet<String> = BTreeSet::new();
        for id in &asks_named {
            for b in [book_pre.asks.get(id), self.book.asks.get(id)].into_iter().flatten() {
                ask_denoms.insert(b.base.clone());
                ask_denoms.insert(cfg_pre.base_denom.clone());
                if let AskClass::Ready { cb_denom, .. } = &b.class {
                    ask_denoms.insert(cb_denom.clone());
                }
            }
        }
        for id in &bids_named {
            for b in [book_pre.bids.get(id), self.book.bids.get(id)].into_iter().flatten() {
                bid_denoms.insert(b.quote_denom.clone());
            }
        }
        let disjoint = ask_denoms.is_disjoint(&bid_denoms);
        if disjoint {
            for (d, v) in &cdelta {
                let key = if ask_denoms.contains(d) && !asks_named.is_empty() {
                    Some(('a', asks_named[0].clone()))
                } else if bid_denoms.contains(d) && !bids_named.is_empty() {
                    Some(('b', bids_named[0].clone()))
                } else {
                    None
                };
                match key {
                    Some(k) => {
                        *self.order_acct.entry(k).or_default().entry(d.clone()).or_insert(0) += v;
                    }
                    None => self.flag(
                        &["C01"],
                        "I-step.unattributed",
                        kind,
                        "",
                        format!("contract balance of {} changed by {} on behalf of no named order", d, v),
                    ),
                }
            }
            let mut keys: Vec<(char, String)> = asks_named.iter().map(|i| ('a', i.clone())).collect();
            keys.extend(bids_named.iter().map(|i| ('b', i.clone())));
            for k in keys {
                let want: BTreeMap<String, i128> = match k.0 {
                    'a' => self
                        .book
                        .asks
                        .get(&k.1)
                        .map(|a| {
                            let mut m = BTreeMap::new();
                            for (d, x) in owed_ask(a) {
                                *m.entry(d).or_insert(0) += x as i128;
                            }
                            m
                        })
                        .unwrap_or_default(),
                    _ => self
                        .book
                        .bids
                        .get(&k.1)
                        .map(|b| {
                            let mut m = BTreeMap::new();
                            for (d, x) in owed_bid(b) {
                                *m.entry(d).or_insert(0) += x as i128;
                            }
                            m
                        })
                        .unwrap_or_default(),
                };
                let mut have = self.order_acct.get(&k).cloned().unwrap_or_default();
                have.retain(|_, v| *v != 0);
                let mut want2 = want.clone();
                want2.retain(|_, v| *v != 0);
                let on_book = match k.0 {
                    'a' => self.book.asks.contains_key(&k.1),
                    _ => self.book.bids.contains_key(&k.1),
                };
                if have != want2 {
                    let q = if on_book { "open_order" } else { "closed_order" };
                    // for a fee-bearing bid this is also C09's life-time identity: fees paid,
                    // refunded and returned must add up to the fee escrowed
                    let fee_bid = k.0 == 'b' && book_pre.bids.get(&k.1).map(|b| b.fee.is_some()).unwrap_or(false);
                    let props: Vec<&str> = if fee_bid { vec!["C01", "C09"] } else { vec!["C01"] };
                    self.flag(
                        &props,
                        "I-step.order_account",
                        kind,
                        q,
                        format!(
                            "{} {}: received minus paid = {:?}, recorded remainder = {:?}",
                            if k.0 == 'a' { "ask" } else { "bid" },
                            k.1,
                            have,
                            want2
                        ),
                    );
                }
                if !on_book {
                    self.order_acct.remove(&k);
                    self.closed.insert(k);
                }
            }
        }

        // I-frame: storage diff touches only what the request names
        let mut touched: Vec<(KeyClass, String)> = vec![];
        let post = &self.chain.storage.data;
        for (k, v) in post.iter() {
            if storage_pre.get(k) != Some(v) {
                touched.push(classify(k));
            }
        }
        for k in storage_pre.keys() {
            if !post.contains_key(k) {
                touched.push(classify(k));
            }
        }
        {
            let mut h = Fnv::new();
            h.str(kind).u64(self.book.asks.len() as u64).u64(self.book.bids.len() as u64);
            for (c, id) in &touched {
                h.u64(*c as u64);
                let shared = self.book.asks.contains_key(id) && self.book.bids.contains_key(id);
                h.u64(shared as u64);
            }
            let many = book_pre.asks.len() + book_pre.bids.len() >= 2;
            self.cov.hit("C11", h.finish(), many);
            let shared_any = self.book.asks.keys().any(|k| self.book.bids.contains_key(k));
            if shared_any {
                self.cov.probe("ask_and_bid_share_an_id");
            }
        }
        for (c, id) in &touched {
            let ok = match c {
                KeyClass::Ask => asks_named.contains(id),
                KeyClass::Bid => bids_named.contains(id),
                // the configuration and the version record are what C11/C12 protect; other
                // auxiliary keys an implementation may keep are not orders and are not judged
                KeyClass::Singleton => {
                    if id == "contract_info" {
                        kind == "modify_contract"
                    } else {
                        id != "version_info"
                    }
                }
            };
            if !ok {
                let props: Vec<&str> = if *c == KeyClass::Singleton {
                    vec!["C11", "C12"]
                } else {
                    vec!["C11"]
                };
                self.flag(
                    &props,
                    "I-frame",
                    kind,
                    match c {
                        KeyClass::Ask => "other_ask",
                        KeyClass::Bid => "other_bid",
                        KeyClass::Singleton => "singleton",
                    },
                    format!("{} changed storage entry {:?} {} which it does not name", kind, c, id),
                );
            }
        }
        if kind == "modify_contract" {
            if self.cfg.executors.is_empty() || (self.cfg.approvers.is_empty() && !cfg_pre.approvers.is_empty()) {
                self.flag(
                    &["C12"],
                    "C12.role_list_emptied",
                    kind,
                    if self.cfg.executors.is_empty() { "executors" } else { "approvers" },
                    format!("a configuration change left a role list empty: executors {:?}, approvers {:?}", self.cfg.executors, self.cfg.approvers),
                );
            }
            // market parameters and version never change through execute
            let a = cfg_pre;
            let b = &self.cfg;
            if a.name != b.name
                || a.bind_name != b.bind_name
                || a.base_denom != b.base_denom
                || a.convertibles != b.convertibles
                || a.quotes != b.quotes
                || a.precision != b.precision
                || a.increment != b.increment
            {
                self.flag(
                    &["C12"],
                    "I-frame.market_parameters",
                    kind,
                    "",
                    format!("market parameters changed by an execute request: {:?} -> {:?}", a, b),
                );
            }
        }
        if &self.chain.storage.data.get(b"version_info".as_slice()).cloned() != version_pre {
            self.flag(&["C12", "C11"], "I-frame.version", kind, "", "version record changed by execute".into());
        }

        // I-mono against the previous book
        let cur = self.book.clone();
        for (id, a) in &cur.asks {
            if let Some(p) = book_pre.asks.get(id) {
                let class_ok = match (&p.class, &a.class) {
                    (AskClass::Plain, AskClass::Plain) => true,
                    (AskClass::Pending, AskClass::Pending) => true,
                    (AskClass::Pending, AskClass::Ready { .. }) => true,
                    (AskClass::Ready { approver: x, cb_denom: d1, cb_amount: a1 },
                     AskClass::Ready { approver: y, cb_denom: d2, cb_amount: a2 }) => x == y && d1 == d2 && a2 <= a1,
                    _ => false,
                };
                if a.id != p.id
                    || a.owner != p.owner
                    || a.base != p.base
                    || a.quote != p.quote
                    || a.price != p.price
                    || a.size > p.size
                    || !class_ok
                {
                    self.flag(
                        &["C11"],
                        "I-mono.ask",
                        kind,
                        "",
                        format!("ask {} changed from {:?} to {:?}", id, p, a),
                    );
                }
            }
        }
        for (id, b) in &cur.bids {
            if let Some(p) = book_pre.bids.get(id) {
                if p.v2 || b.v2 {
                    continue;
                }
                if b.id != p.id
                    || b.owner != p.owner
                    || b.base_denom != p.base_denom
                    || b.base_amount != p.base_amount
                    || b.quote_denom != p.quote_denom
                    || b.quote_amount != p.quote_amount
                    || b.fee != p.fee
                    || b.price != p.price
                    || b.acc_base < p.acc_base
                    || b.acc_quote < p.acc_quote
                    || b.acc_fee < p.acc_fee
                {
                    self.flag(
                        &["C11"],
                        "I-mono.bid",
                        kind,
                        "",
                        format!("bid {} changed from {:?} to {:?}", id, p, b),
                    );
                }
            }
        }
        self.wellformed(kind, &asks_named, &bids_named);
    }

    /// I-wf on every order of the book (C11), Ready => escrow == size (C08), pro-rata fee state (C09)
    pub fn wellformed(&mut self, kind: &str, asks_named: &[String], bids_named: &[String]) {
        let cfg = self.cfg.clone();
        let book = self.book.clone();
        for (id, a) in &book.asks {
            let mut bad: Vec<&str> = vec![];
            if a.size == 0 {
                bad.push("zero_size");
            }
            if &a.id != id {
                bad.push("key_id_mismatch");
            }
            let plain = a.class == AskClass::Plain;
            if plain != (a.base == cfg.base_denom) {
                bad.push("class_vs_base");
            }
            if !plain && !cfg.convertibles.contains(&a.base) {
                bad.push("base_not_traded");
            }
            if !cfg.quotes.contains(&a.quote) {
                bad.push("quote_not_traded");
            }
            match dec::parse(&a.price) {
                Parsed::Ok(p) => {
                    if !p.is_positive() || p.decimals() as u128 > cfg.precision {
                        bad.push("price_invalid");
                    }
                }
                Parsed::Bad => bad.push("price_invalid"),
                Parsed::Odd | Parsed::Long => {}
            }
            // C13's consequence: an admitted price times an admitted size is a whole number
            if let Parsed::Ok(p) = dec::parse(&a.price) {
                if let Some(t) = p.mul_int(dec::u(a.size)) {
                    // (only at admission: a remainder left by fills of arbitrary size is not an admissible size)
                    if t.representable() && !t.is_integral() && asks_named.contains(id) && kind == "create_ask" {
                        self.flag(
                            &["C13", "C11"],
                            "I-wf.ask_total_not_integral",
                            kind,
                            "",
                            format!("ask {}: price {} x remaining size {} is not a whole number", id, a.price, a.size),
                        );
                    }
                }
            }
            if let AskClass::Ready { cb_denom, cb_amount, .. } = &a.class {
                if cb_denom != &cfg.base_denom {
                    bad.push("approver_escrow_denom");
                }
                let named = asks_named.contains(id);
                let mut h = Fnv::new();
                h.str("ready_inv").str(kind).u128(a.size).u128(*cb_amount);
                self.cov.hit("C08", h.finish(), named);
                if *cb_amount != a.size {
                    self.flag(
                        &["C08"],
                        "I-wf.approver_escrow_tracks_size",
                        kind,
                        "",
                        format!(
                            "approved ask {}: recorded approver amount {} but remaining size {}",
                            id, cb_amount, a.size
                        ),
                    );
                }
            }
            if !bad.is_empty() {
                self.flag(
                    &["C11"],
                    "I-wf.ask",
                    kind,
                    &bad.join(","),
                    format!("ask on book is not internally consistent ({}): {:?}", bad.join(","), a),
                );
            }
        }
        for (id, b) in &book.bids {
            if b.v2 {
                continue;
            }
            let mut bad: Vec<&str> = vec![];
            if b.unfilled() == 0 || b.acc_base > b.base_amount {
                bad.push("zero_size");
            }
            if &b.id != id {
                bad.push("key_id_mismatch");
            }
            if b.base_denom != cfg.base_denom {
                bad.push("base_not_traded");
            }
            if !cfg.quotes.contains(&b.quote_denom) {
                bad.push("quote_not_traded");
            }
            if b.acc_quote > b.quote_amount || b.acc_fee > b.fee_total() {
                bad.push("accumulated_above_total");
            }
            if let Some((fd, _)) = &b.fee {
                if fd != &b.quote_denom {
                    bad.push("fee_denom");
                }
            }
            match dec::parse(&b.price) {
                Parsed::Ok(p) => {
                    if !p.is_positive() || p.decimals() as u128 > cfg.precision {
                        bad.push("price_invalid");
                    } else if let Some(t) = p.mul_int(dec::u(b.unfilled())) {
                        if t.representable() {
                            match t.to_int().and_then(dec::to_u128) {
                                Some(q) if q == b.unspent_quote() => {}
                                _ => bad.push("unspent_quote_vs_price_times_unfilled"),
                            }
                        }
                    }
                }
                Parsed::Bad => bad.push("price_invalid"),
                Parsed::Odd | Parsed::Long => {}
            }
            if !bad.is_empty() {
                self.flag(
                    &["C11"],
                    "I-wf.bid",
                    kind,
                    &bad.join(","),
                    format!("bid on book is not internally consistent ({}): {:?}", bad.join(","), b),
                );
            }
            // C09 (c): fee still held = original fee scaled by the unspent fraction of the quote
            if b.fee.is_some() && b.quote_amount > 0 {
                let fee = b.fee_total();
                if let Ok(alts) = model::pro_rata_alts(fee, b.unspent_quote(), b.quote_amount) {
                    let h = alts[0];
                    let tie = alts.len() > 1;
                    let uf = b.unspent_fee();
                    let ok = alts.contains(&uf);
                    let named = bids_named.contains(id);
                    let mut hh = Fnv::new();
                    hh.str("prorata").u128(fee).u128(b.unspent_quote()).u128(b.quote_amount);
                    self.cov.hit("C09", hh.finish(), named);
                    if tie && named {
                        self.cov.probe("pro_rata_state_on_exact_tie");
                    }
                    if fee >= 10u128.pow(18) && named {
                        self.cov.probe("pro_rata_state_with_fee_of_1e18_or_more");
                    }
                    if !ok {
                        self.flag(
                            &["C09"],
                            "I-wf.pro_rata_fee",
                            kind,
                            if uf > h { "fee_held_too_high" } else { "fee_held_too_low" },
                            format!(
                                "bid {}: fee held {} but original fee {} x unspent quote {}/{} rounds to {}{}",
                                id,
                                uf,
                                fee,
                                b.unspent_quote(),
                                b.quote_amount,
                                h,
                                if tie { " (tie or near-tie: the neighbouring unit is also accepted)" } else { "" }
                            ),
                        );
                    }
                }
            }
        }
    }

    // ------------------------------------------------------------ C10

    fn c10_messages(
        &mut self,
        kind: &str,
        sender: &str,
        acc: &Accepted,
        res: &TxResult,
        tags: &[&'static str],
    ) {
        let contract = self.chain.contract.clone();
        let restricted = |d: &str| -> bool {
            for s in &res.served {
                if let crate::seams::Served::Marker { denom, restricted, .. } = s {
                    if denom == d {
                        return *restricted;
                    }
                }
            }
            self.chain.querier.markers.get(d).copied().unwrap_or(0) == 2
        };
        let mixed = {
            let vals: BTreeSet<u8> = self.chain.querier.markers.values().copied().collect();
            let denoms = 1 + self.cfg.convertibles.len() + self.cfg.quotes.len();
            vals.len() > 1 || (self.chain.querier.markers.len() < denoms && !vals.is_empty())
        };
        let mut found: Vec<(String, String, String)> = vec![];
        for f in &acc.foreign_msgs {
            found.push(("foreign_message".into(), String::new(), format!("unsupported message kind: {}", f)));
        }
        if acc.has_reply {
            found.push(("reply_requested".into(), String::new(), "sub-message with reply".into()));
        }
        for (i, x) in acc.xfers.iter().enumerate() {
            let r = restricted(&x.denom);
            let role = if x.denom == self.cfg.base_denom {
                "base"
            } else if self.cfg.convertibles.contains(&x.denom) {
                "convertible"
            } else {
                "quote"
            };
            let table_kind = self.chain.querier.markers.get(&x.denom).copied().unwrap_or(0);
            let mut h = Fnv::new();
            h.str(kind).u64(x.mech as u64).str(role).u64(table_kind as u64).u64(mixed as u64);
            h.u64((x.from == contract) as u64);
            for t in tags {
                if *t == "approved" || *t == "plain" {
                    h.str(t);
                }
            }
            // marker assignment of all traded denominations
            for d in std::iter::once(&self.cfg.base_denom)
                .chain(self.cfg.convertibles.iter())
                .chain(self.cfg.quotes.iter())
            {
                h.u64(self.chain.querier.markers.get(d).copied().unwrap_or(0) as u64);
            }
            self.cov.hit("C10", h.finish(), true);
            if mixed {
                self.cov.probe("message_under_mixed_marker_table");
            }
            if x.amount == 0 {
                found.push((
                    "zero_amount".into(),
                    role.into(),
                    format!("message {}: {:?} of 0 {} to {}", i, x.mech, x.denom, x.to),
                ));
            }
            match x.mech {
                Mech::Bank => {
                    if x.ncoins != 1 {
                        found.push(("bank_send_many_coins".into(), role.into(), format!("message {} carries {} coins", i, x.ncoins)));
                    }
                    if r {
                        found.push((
                            "bank_send_for_restricted".into(),
                            role.into(),
                            format!("message {}: bank send of {} {} although the denomination was served as a restricted marker", i, x.amount, x.denom),
                        ));
                    }
                }
                Mech::Marker => {
                    if !r {
                        found.push((
                            "marker_transfer_for_unrestricted".into(),
                            role.into(),
                            format!("message {}: marker transfer of {} {} although the denomination is not a restricted marker", i, x.amount, x.denom),
                        ));
                    }
                    if x.admin != contract {
                        found.push(("administrator_not_contract".into(), role.into(), format!("message {}: administrator {}", i, x.admin)));
                    }
                    let payout = x.from == contract;
                    let pull = x.from == sender && x.to == contract;
                    if !payout && !pull {
                        found.push((
                            "transfer_from_third_party".into(),
                            role.into(),
                            format!("message {}: marker transfer from {} to {}", i, x.from, x.to),
                        ));
                    }
                }
            }
        }
        for (q, role, d) in found {
            let qq = if role.is_empty() { q.clone() } else { format!("{},{}", q, role) };
            self.flag(&["C10"], "C10.message", kind, &qq, d);
        }
    }

    // ------------------------------------------------------------ C17 / C12

    fn c17_shadow(&mut self, kind: &str) {
        let mut diffs: Vec<String> = vec![];
        for (id, a) in &self.book.asks {
            match self.shadow.asks.get(id) {
                None => diffs.push(format!("ask {} on chain but not in the attribute-driven record", id)),
                Some(s) => {
                    if s.remaining != a.size {
                        diffs.push(format!("ask {} remaining {} on chain, {} off chain", id, a.size, s.remaining));
                    }
                    if s.state != a.class.tag() {
                        diffs.push(format!("ask {} state {} on chain, {} off chain", id, a.class.tag(), s.state));
                    }
                }
            }
        }
        for id in self.shadow.asks.keys() {
            if !self.book.asks.contains_key(id) {
                diffs.push(format!("ask {} open off chain but not on the book", id));
            }
        }
        for (id, b) in &self.book.bids {
            match self.shadow.bids.get(id) {
                None => diffs.push(format!("bid {} on chain but not in the attribute-driven record", id)),
                Some(s) => {
                    if s.remaining != b.unfilled() {
                        diffs.push(format!("bid {} remaining {} on chain, {} off chain", id, b.unfilled(), s.remaining));
                    }
                }
            }
        }
        for id in self.shadow.bids.keys() {
            if !self.book.bids.contains_key(id) {
                diffs.push(format!("bid {} open off chain but not on the book", id));
            }
        }
        if !diffs.is_empty() {
            self.flag(&["C17"], "C17.shadow_book", kind, "", diffs.join("; "));
            // resynchronise so one divergence is reported once
            self.resync_shadow();
        }
    }

    /// C03, model-free: no seller is paid less per unit than their limit, no buyer pays more than theirs.
    /// Judged on the emitted transfers of an accepted match, when the parties are distinct accounts.
    fn c03_limit_prices(&mut self, req: &Req, kind: &str, acc: &Accepted, book_pre: &Book, cfg_pre: &Cfg) {
        let (ask_id, bid_id) = match req {
            Req::ExecuteMatch { ask_id, bid_id, .. } => (ask_id, bid_id),
            _ => return,
        };
        let (a, b) = match (book_pre.asks.get(ask_id), book_pre.bids.get(bid_id)) {
            (Some(a), Some(b)) => (a, b),
            _ => return,
        };
        let seller: &String = match &a.class {
            AskClass::Ready { approver, .. } => approver,
            _ => &a.owner,
        };
        let af = cfg_pre.ask_fee.as_ref().map(|f| f.account.clone());
        let bf = cfg_pre.bid_fee.as_ref().map(|f| f.account.clone());
        // coinciding parties make "who was paid for what" ambiguous: skip those
        let mut names: Vec<&String> = vec![seller, &b.owner];
        if let Some(x) = &af {
            names.push(x);
        }
        if let Some(x) = &bf {
            names.push(x);
        }
        let mut sorted = names.clone();
        sorted.sort();
        sorted.dedup();
        if sorted.len() != names.len() || names.iter().any(|n| **n == self.chain.contract) {
            return;
        }
        let s_after = self.book.asks.get(ask_id).map(|x| x.size).unwrap_or(0);
        let size = a.size.saturating_sub(s_after);
        if size == 0 || size >= (1u128 << 96) {
            return;
        }
        let (ap, bp) = match (dec::parse(&a.price), dec::parse(&b.price)) {
            (Parsed::Ok(x), Parsed::Ok(y)) => (x, y),
            _ => return,
        };
        let q = &b.quote_denom;
        let to = |who: &String| -> u128 { acc.xfers.iter().filter(|x| &x.to == who && &x.denom == q).map(|x| x.amount).sum() };
        let seller_side = to(seller) + af.as_ref().map(|x| to(x)).unwrap_or(0);
        let buyer_pays = seller_side + bf.as_ref().map(|x| to(x)).unwrap_or(0);
        // seller side (proceeds + the fee taken from them) >= ask price * size
        if let Some(min) = ap.mul_int(dec::u(size)) {
            let got = Dec { neg: false, mant: dec::u(seller_side), scale: 0 };
            if got.cmp_val(&min) == std::cmp::Ordering::Less {
                self.flag(
                    &["C03", "C02"],
                    "C03.seller_paid_below_limit",
                    kind,
                    "",
                    format!("ask {} at {} filled for {} units but the selling side received only {} {}", ask_id, a.price, size, seller_side, q),
                );
            }
        }
        // what leaves the bid's escrow towards others <= bid price * size + the fee the bid still held
        if let Some(max) = bp.mul_int(dec::u(size)) {
            let paid = Dec { neg: false, mant: dec::u(buyer_pays.saturating_sub(b.unspent_fee())), scale: 0 };
            if paid.cmp_val(&max) == std::cmp::Ordering::Greater {
                self.flag(
                    &["C03", "C02"],
                    "C03.buyer_pays_above_limit",
                    kind,
                    "",
                    format!("bid {} at {} filled for {} units but {} {} left its escrow towards the other parties", bid_id, b.price, size, buyer_pays, q),
                );
            }
        }
        self.cov.hit("C03", Fnv::new().str("limit").u128(size).str(&a.price).str(&b.price).finish(), true);
    }

    /// C17, model-free: the amounts a response reports against what the ledger and the book show
    fn c17_truth(&mut self, req: &Req, kind: &str, acc: &Accepted, res: &TxResult, book_pre: &Book, cfg_pre: &Cfg) {
        let attr = |k: &str| acc.attrs.iter().find(|(a, _)| a == k).map(|(_, v)| v.clone());
        let num = |k: &str| attr(k).and_then(|v| v.parse::<u128>().ok());
        let got = |acct: &str, denom: &str| -> i128 {
            *res.deltas.get(&(acct.to_string(), denom.to_string())).unwrap_or(&0)
        };
        let contract = self.chain.contract.clone();
        let mut bad: Vec<String> = vec![];
        match req {
            Req::ExpireAsk { id } | Req::RejectAsk { id, .. } => {
                if let (Some(a), Some(r)) = (book_pre.asks.get(id), num("reverse_size")) {
                    let after = self.book.asks.get(id).map(|x| x.size).unwrap_or(0);
                    if a.size.saturating_sub(after) != r {
                        bad.push(format!("reverse_size={} but the ask's size fell by {}", r, a.size.saturating_sub(after)));
                    }
                    // what actually went back, per depositor
                    if a.owner != contract {
                        let approver_same = matches!(&a.class, AskClass::Ready { approver, cb_denom, .. } if approver == &a.owner && cb_denom == &a.base);
                        if !approver_same && got(&a.owner, &a.base) != r as i128 {
                            bad.push(format!("reverse_size={} but {} {} went back to the owner", r, got(&a.owner, &a.base), a.base));
                        }
                    }
                    if let AskClass::Ready { approver, cb_denom, .. } = &a.class {
                        if !(approver == &a.owner && cb_denom == &a.base) && got(approver, cb_denom) != r as i128 {
                            bad.push(format!("reverse_size={} but {} {} went back to the approver", r, got(approver, cb_denom), cb_denom));
                        }
                    }
                    let open = attr("order_open");
                    let on_book = self.book.asks.contains_key(id);
                    if open.as_deref() != Some(if on_book { "true" } else { "false" }) {
                        bad.push(format!("order_open={:?} but the ask is {} the book", open, if on_book { "still on" } else { "off" }));
                    }
                }
            }
            Req::CancelBid { id } | Req::ExpireBid { id } | Req::RejectBid { id, .. } => {
                if let (Some(b), Some(r)) = (book_pre.bids.get(id), num("reverse_size")) {
                    let after = self.book.bids.get(id).map(|x| x.unfilled()).unwrap_or(0);
                    if b.unfilled().saturating_sub(after) != r {
                        bad.push(format!("reverse_size={} but the bid's unfilled size fell by {}", r, b.unfilled().saturating_sub(after)));
                    }
                    // the quote that went back must be price x reverse_size, plus at most the fee still held
                    if b.owner != contract {
                        if let Parsed::Ok(p) = dec::parse(&b.price) {
                            if let Some(q) = p.mul_int(dec::u(r)).and_then(|t| t.to_int()).and_then(dec::to_u128) {
                                let back = got(&b.owner, &b.quote_denom);
                                if back < q as i128 || back > (q + b.unspent_fee()) as i128 {
                                    bad.push(format!("reverse_size={} at price {} is {} quote, but {} went back to the owner", r, b.price, q, back));
                                }
                            }
                        }
                    }
                    let open = attr("order_open");
                    let on_book = self.book.bids.contains_key(id);
                    if open.as_deref() != Some(if on_book { "true" } else { "false" }) {
                        bad.push(format!("order_open={:?} but the bid is {} the book", open, if on_book { "still on" } else { "off" }));
                    }
                }
            }
            Req::ExecuteMatch { ask_id, bid_id, .. } => {
                if let (Some(a), Some(b)) = (book_pre.asks.get(ask_id), book_pre.bids.get(bid_id)) {
                    let seller: String = match &a.class {
                        AskClass::Ready { approver, .. } => approver.clone(),
                        _ => a.owner.clone(),
                    };
                    let others = |x: &str, rest: &[&str]| rest.iter().all(|y| *y != x);
                    let af_acct = cfg_pre.ask_fee.as_ref().map(|f| f.account.clone());
                    let bf_acct = cfg_pre.bid_fee.as_ref().map(|f| f.account.clone());
                    if let Some(sz) = num("size") {
                        let a_after = self.book.asks.get(ask_id).map(|x| x.size).unwrap_or(0);
                        let b_after = self.book.bids.get(bid_id).map(|x| x.unfilled()).unwrap_or(0);
                        if a.size.saturating_sub(a_after) != sz || b.unfilled().saturating_sub(b_after) != sz {
                            bad.push(format!("size={} but the orders fell by {} / {}", sz, a.size.saturating_sub(a_after), b.unfilled().saturating_sub(b_after)));
                        }
                        if others(&b.owner, &[&seller, &a.owner, &contract]) && got(&b.owner, &cfg_pre.base_denom) != sz as i128 {
                            bad.push(format!("size={} but the buyer received {} {}", sz, got(&b.owner, &cfg_pre.base_denom), cfg_pre.base_denom));
                        }
                    }
                    if let (Some(f), Some(acct)) = (num("ask_fee"), &af_acct) {
                        let mut rest: Vec<&str> = vec![&seller, &a.owner, &b.owner, &contract];
                        if let Some(x) = &bf_acct {
                            rest.push(x);
                        }
                        if others(acct, &rest) && got(acct, &b.quote_denom) != f as i128 {
                            bad.push(format!("ask_fee={} but the ask-fee account received {}", f, got(acct, &b.quote_denom)));
                        }
                    } else if let Some(f) = num("ask_fee") {
                        if f != 0 {
                            bad.push(format!("ask_fee={} reported without an ask-fee account", f));
                        }
                    }
                    if let (Some(f), Some(acct)) = (num("bid_fee"), &bf_acct) {
                        let mut rest: Vec<&str> = vec![&seller, &a.owner, &b.owner, &contract];
                        if let Some(x) = &af_acct {
                            rest.push(x);
                        }
                        if others(acct, &rest) && got(acct, &b.quote_denom) != f as i128 {
                            bad.push(format!("bid_fee={} but the bid-fee account received {}", f, got(acct, &b.quote_denom)));
                        }
                    } else if let Some(f) = num("bid_fee") {
                        if f != 0 {
                            bad.push(format!("bid_fee={} reported without a bid-fee account", f));
                        }
                    }
                }
            }
            _ => {}
        }
        if !bad.is_empty() {
            self.flag(&["C17"], "C17.reported_vs_settled", kind, "", bad.join("; "));
        }
    }

    pub fn resync_shadow(&mut self) {
        let h = self.chain.height;
        let mut s = Shadow::default();
        for (id, a) in &self.book.asks {
            let old = self.shadow.asks.get(id);
            s.asks.insert(
                id.clone(),
                ShadowAsk {
                    remaining: a.size,
                    state: a.class.tag().to_string(),
                    owner: a.owner.clone(),
                    base: a.base.clone(),
                    quote: a.quote.clone(),
                    price: a.price.clone(),
                    born: old.map(|o| o.born).unwrap_or(h),
                },
            );
        }
        for (id, b) in &self.book.bids {
            let old = self.shadow.bids.get(id);
            s.bids.insert(
                id.clone(),
                ShadowBid {
                    remaining: b.unfilled(),
                    owner: b.owner.clone(),
                    quote: b.quote_denom.clone(),
                    price: b.price.clone(),
                    born: old.map(|o| o.born).unwrap_or(h),
                },
            );
        }
        self.shadow = s;
    }

    /// the rate applied by a match / demanded from a new bid equals the rate in force when that
    /// side of the book became non-empty (unless a migration intervened, which resets the record)
    fn c12_relational(&mut self, req: &Req, kind: &str, exp: &Expect) {
        let eq = |a: &Option<String>, b: &Option<String>| -> bool {
            match (a, b) {
                (None, None) => true,
                (Some(x), Some(y)) => match (dec::parse(x), dec::parse(y)) {
                    (Parsed::Ok(p), Parsed::Ok(q)) => p.eq_val(&q),
                    // a spelling the model does not read: no verdict unless the strings agree
                    _ => true,
                },
                _ => false,
            }
        };
        let _ = (req, exp);
        let cur_a = self.cfg.ask_fee.as_ref().map(|f| f.rate.clone());
        let cur_b = self.cfg.bid_fee.as_ref().map(|f| f.rate.clone());
        if let Some(fr) = &self.frozen_ask_rate {
            if !self.book.asks.is_empty() {
                let mut h = Fnv::new();
                h.str("freeze_a").str(kind).str(&format!("{:?}", fr));
                self.cov.hit("C12", h.finish(), kind == "modify_contract");
                if !eq(fr, &cur_a) {
                    self.flag(
                        &["C12"],
                        "C12.rate_frozen_while_side_open",
                        kind,
                        "ask",
                        format!("ask fee rate was {:?} when the ask side became non-empty, now {:?}", fr, cur_a),
                    );
                    self.frozen_ask_rate = Some(cur_a.clone());
                }
            }
        }
        if let Some(fr) = &self.frozen_bid_rate {
            if !self.book.bids.is_empty() {
                if !eq(fr, &cur_b) {
                    self.flag(
                        &["C12"],
                        "C12.rate_frozen_while_side_open",
                        kind,
                        "bid",
                        format!("bid fee rate was {:?} when the bid side became non-empty, now {:?}", fr, cur_b),
                    );
                    self.frozen_bid_rate = Some(cur_b.clone());
                }
            }
        }
    }

    // ------------------------------------------------------------ twin (C15)

    fn twin_step(&mut self, sender: &str, funds: &[CoinS], msg: &Value, res: &TxResult, kind: &str) {
        let mut twin = self.twin.take().unwrap();
        let tr = twin.deliver(sender, funds, msg, &TxFaults::default());
        self.twin_steps += 1;
        let same = match (&res.outcome, &tr.outcome) {
            (Outcome::Accepted(a), Outcome::Accepted(b)) => {
                a.xfers == b.xfers && a.attrs == b.attrs && res.deltas == tr.deltas
            }
            (Outcome::Refused(a), Outcome::Refused(b)) => {
                a.injected() || a.class() == b.class()
            }
            (Outcome::Refused(a), _) => a.injected(),
            _ => false,
        };
        let mut h = Fnv::new();
        h.str("twin").str(kind).u64(res.outcome.is_accepted() as u64);
        self.cov.hit("C15", h.finish(), res.outcome.is_accepted());
        if matches!(&res.outcome, Outcome::Refused(a) if a.injected()) {
            // faulted step: the twin must not advance either
            self.twin = None;
            return;
        }
        if !same {
            self.flag(
                &["C15"],
                "C15.twin_divergence",
                kind,
                "",
                format!(
                    "converted book and never-converted twin diverge on {}: {:?} vs {:?}",
                    kind,
                    brief_outcome(&res.outcome),
                    brief_outcome(&tr.outcome)
                ),
            );
            self.twin = None;
            return;
        }
        // order entries must stay equal field by field
        match (book::scan_book(&self.chain.storage), book::scan_book(&twin.storage)) {
            (Ok(a), Ok(b)) => {
                if a != b {
                    self.flag(
                        &["C15"],
                        "C15.twin_book_divergence",
                        kind,
                        "",
                        "converted book and twin book differ after the same step".into(),
                    );
                    self.twin = None;
                    return;
                }
            }
            _ => {}
        }
        self.twin = Some(twin);
    }
}

fn brief_outcome(o: &Outcome) -> String {
    match o {
        Outcome::Accepted(a) => format!("accepted xfers={:?} attrs={:?}", a.xfers, a.attrs),
        Outcome::Refused(r) => format!("refused {}:{}", r.class(), r.text()),
    }
}

pub fn req_brief(r: &Req) -> String {
    format!("{:?}", r)
}

fn refusal_qual(r: &Refusal) -> String {
    let t = r.text();
    let cls = r.class();
    // canonical, amount-free qualifier
    let short: String = t
        .chars()
        .filter(|c| c.is_ascii_alphabetic() || *c == ' ')
        .collect::<String>()
        .split_whitespace()
        .take(6)
        .collect::<Vec<_>>()
        .join("_");
    format!("{}:{}", cls, short)
}

fn decision_props(kind: &str) -> &'static [&'static str] {
    match kind {
        "execute_match" => &["C03"],
        "create_ask" | "create_bid" => &["C07"],
        "approve_ask" => &["C08"],
        "modify_contract" => &["C12"],
        "cancel_ask" | "cancel_bid" | "expire_ask" | "expire_bid" | "reject_ask" | "reject_bid" => &["C04"],
        _ => &["C07"],
    }
}

fn inst_shape(msg: &Value) -> String {
    let mut s = String::new();
    if let Some(o) = msg.as_object() {
        for (k, v) in o {
            let c = match v {
                Value::Null => 'n',
                Value::String(x) if x.is_empty() => 'e',
                Value::String(_) => 's',
                Value::Array(a) if a.is_empty() => 'E',
                Value::Array(_) => 'A',
                _ => 'o',
            };
            s.push_str(&k[..1.min(k.len())]);
            s.push(c);
        }
        s.push_str(o.get("price_precision").and_then(|v| v.as_str()).unwrap_or("?"));
        s.push('/');
        s.push_str(o.get("size_increment").and_then(|v| v.as_str()).unwrap_or("?"));
        for k in ["ask_fee_rate", "bid_fee_rate", "ask_fee_account", "bid_fee_account"] {
            s.push('|');
            s.push_str(o.get(k).and_then(|v| v.as_str()).unwrap_or("-"));
        }
    }
    s
}

/// abstract state: multiset of order shapes (side, class, remaining-fraction bucket, fee state)
pub fn book_shape_hash(b: &Book, cfg: &Cfg) -> u64 {
    let mut shapes: Vec<u64> = vec![];
    for a in b.asks.values() {
        let mut h = Fnv::new();
        h.str("a").str(a.class.tag());
        let lot = if cfg.increment > 0 { (a.size % cfg.increment != 0) as u64 } else { 0 };
        h.u64(lot).u64((a.size / cfg.increment.max(1)).min(8) as u64);
        shapes.push(h.finish());
    }
    for x in b.bids.values() {
        let mut h = Fnv::new();
        h.str("b");
        let frac = if x.base_amount > 0 { (x.unfilled() * 4 / x.base_amount) as u64 } else { 0 };
        let lot = if cfg.increment > 0 { (x.unfilled() % cfg.increment != 0) as u64 } else { 0 };
        h.u64(frac).u64(lot).u64(x.fee.is_some() as u64).u64((x.unspent_fee() == 0) as u64);
        shapes.push(h.finish());
    }
    shapes.sort();
    let mut h = Fnv::new();
    for s in shapes {
        h.u64(s);
    }
    h.u64(cfg.ask_fee.is_some() as u64).u64(cfg.bid_fee.is_some() as u64);
    h.finish()
}

#[allow(dead_code)]
pub fn unused(_: &AskM, _: &BidM) {}
