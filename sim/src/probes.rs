//! Probes on forks of the current state (never perturb the history; always fault-free).

use crate::book::{self, owed_ask, owed_bid, AskClass};
use crate::chain::{CoinS, Outcome, TxFaults};
use crate::model::{self, Expect};
use crate::rng::{Fnv, Rng};
use crate::sim::Sim;
use serde_json::{json, Value};
use std::collections::BTreeMap;

fn probe_rng(sim: &Sim, tag: u64) -> Rng {
    Rng::new(sim.spec.probe_seed ^ (sim.step_no as u64).wrapping_mul(0x9E37_79B9_7F4A_7C15) ^ tag)
}

/// C06: every open order can be cancelled by its owner and expired by an executor, and is made whole.
pub fn probe_exit(sim: &mut Sim) {
    let book = sim.book.clone();
    let cfg = sim.cfg.clone();
    let contract = sim.chain.contract.clone();
    let executor = match cfg.executors.first() {
        Some(e) => e.clone(),
        None => return,
    };
    let mut work: Vec<(char, String, String, Vec<(String, String, u128)>)> = vec![];
    for (id, a) in &book.asks {
        let mut pay = vec![(a.owner.clone(), a.base.clone(), a.size)];
        if let AskClass::Ready { approver, cb_denom, cb_amount } = &a.class {
            pay.push((approver.clone(), cb_denom.clone(), *cb_amount));
        }
        work.push(('a', id.clone(), a.owner.clone(), pay));
    }
    for (id, b) in &book.bids {
        // a bid still in the old event-log format after an accepted migration is an order carried
        // over from an earlier version: it must be able to leave like any other
        let pay = vec![(b.owner.clone(), b.quote_denom.clone(), b.unspent_quote() + b.unspent_fee())];
        work.push(('b', id.clone(), b.owner.clone(), pay));
    }
    for (side, id, owner, pay) in work {
        for mode in ["cancel", "expire"] {
            let (sender, msg) = match (side, mode) {
                ('a', "cancel") => (owner.clone(), json!({"cancel_ask": {"id": id}})),
                ('a', _) => (executor.clone(), json!({"expire_ask": {"id": id}})),
                ('b', "cancel") => (owner.clone(), json!({"cancel_bid": {"id": id}})),
                _ => (executor.clone(), json!({"expire_bid": {"id": id}})),
            };
            let kind = msg.as_object().unwrap().keys().next().unwrap().clone();
            let mut fork = sim.chain.clone();
            let r = fork.deliver(&sender, &[], &msg, &TxFaults::default());
            // coverage: order shape x remainder vs lot grid x request
            let mut h = Fnv::new();
            h.str(&kind);
            let (rem, lot_off, shape) = match side {
                'a' => {
                    let a = &book.asks[&id];
                    (a.size, cfg.increment > 0 && a.size % cfg.increment != 0, a.class.tag())
                }
                _ => {
                    let b = &book.bids[&id];
                    (
                        b.unfilled(),
                        cfg.increment > 0 && b.unfilled() % cfg.increment != 0,
                        if b.fee.is_some() { "fee_bid" } else { "bid" },
                    )
                }
            };
            h.str(shape).u64(lot_off as u64).u128(rem).u128(cfg.increment);
            let legacy = model::id_class(&id) == model::IdClass::Legacy;
            h.u64(legacy as u64);
            sim.cov.hit("C06", h.finish(), true);
            if lot_off {
                sim.cov.probe("exit_probe_on_non_lot_remainder");
            }
            if legacy {
                sim.cov.probe("exit_probe_on_legacy_id");
            }
            let qual_shape = format!("{}{}", shape, if lot_off { ",non_lot_remainder" } else { "" });
            match &r.outcome {
                Outcome::Refused(rf) => {
                    let mut props = vec!["C06"];
                    if rf.text().contains("must be an integer") {
                        props.push("C13");
                    }
                    sim.flag(
                        &props,
                        "P-exit.refused",
                        &kind,
                        &qual_shape,
                        format!(
                            "open {} {} cannot be {}ed by {}: {}:{} (remaining {}, increment {})",
                            if side == 'a' { "ask" } else { "bid" },
                            id,
                            mode,
                            sender,
                            rf.class(),
                            rf.text(),
                            rem,
                            cfg.increment
                        ),
                    );
                }
                Outcome::Accepted(_) => {
                    let mut want: BTreeMap<(String, String), i128> = BTreeMap::new();
                    for (to, d, x) in &pay {
                        if *x > 0 {
                            *want.entry((to.clone(), d.clone())).or_insert(0) += *x as i128;
                            *want.entry((contract.clone(), d.clone())).or_insert(0) -= *x as i128;
                        }
                    }
                    want.retain(|_, v| *v != 0);
                    let gone = match side {
                        'a' => !fork.storage.data.contains_key(&book::ask_key(&id)),
                        _ => !fork.storage.data.contains_key(&book::bid_key(&id)),
                    };
                    if want != r.deltas {
                        sim.flag(
                            &["C06"],
                            "P-exit.not_made_whole",
                            &kind,
                            &qual_shape,
                            format!(
                                "{} of {} returned {:?}, the remaining escrow is {:?}",
                                mode, id, r.deltas, want
                            ),
                        );
                    }
                    if !gone {
                        sim.flag(
                            &["C06"],
                            "P-exit.order_still_open",
                            &kind,
                            &qual_shape,
                            format!("{} of {} succeeded but the order is still on the book", mode, id),
                        );
                    }
                }
            }
        }
    }
}

/// C06 (and C01): when every owner cancels every open order, nothing may stay behind. Funds that no
/// order accounts for - a second escrow taken for an order already approved, a fee that was booked
/// but not paid - can never be recovered by anybody, although each single exit looks whole.
pub fn probe_drain(sim: &mut Sim) {
    let book = sim.book.clone();
    if book.asks.is_empty() && book.bids.is_empty() {
        return;
    }
    let mut fork = sim.chain.clone();
    for (id, a) in &book.asks {
        let r = fork.deliver(&a.owner, &[], &json!({"cancel_ask": {"id": id}}), &TxFaults::default());
        if !r.outcome.is_accepted() {
            return; // reported by the per-order probe
        }
    }
    for (id, b) in &book.bids {
        let r = fork.deliver(&b.owner, &[], &json!({"cancel_bid": {"id": id}}), &TxFaults::default());
        if !r.outcome.is_accepted() {
            return;
        }
    }
    sim.cov.hit("C06", Fnv::new().str("drain").u64(book.asks.len() as u64).u64(book.bids.len() as u64).finish(), true);
    let left = fork.contract_balances();
    if !left.is_empty() {
        sim.flag(
            &["C06", "C01"],
            "P-exit.funds_left_after_all_exits",
            "cancel_all",
            "",
            format!("after every open order was cancelled by its owner the contract still holds {:?}", left),
        );
    }
}

/// C05: sender x request matrix on a fork, judged by the role predicate of the model.
pub fn probe_auth(sim: &mut Sim) {
    let book = sim.book.clone();
    let cfg = sim.cfg.clone();
    let mut rng = probe_rng(sim, 0x05);
    let mut reqs: Vec<(Value, Vec<CoinS>)> = vec![];
    let ask_ids: Vec<&String> = book.asks.keys().collect();
    let bid_ids: Vec<&String> = book.bids.keys().filter(|k| !book.bids[*k].v2).collect();
    if !ask_ids.is_empty() {
        let id = (*rng.pick(&ask_ids)).clone();
        reqs.push((json!({"cancel_ask": {"id": id}}), vec![]));
        reqs.push((json!({"expire_ask": {"id": id}}), vec![]));
        reqs.push((json!({"reject_ask": {"id": id}}), vec![]));
        if cfg.increment > 0 && book.asks[&id].size > cfg.increment {
            reqs.push((json!({"reject_ask": {"id": id, "size": cfg.increment.to_string()}}), vec![]));
        }
        // approve a pending ask if there is one
        if let Some((pid, pa)) = book.asks.iter().find(|(_, a)| a.class == AskClass::Pending) {
            let restricted = sim.chain.querier.markers.get(&cfg.base_denom).copied().unwrap_or(0) == 2;
            let funds = if restricted { vec![] } else { vec![CoinS::new(pa.size, &cfg.base_denom)] };
            reqs.push((
                json!({"approve_ask": {"id": pid, "base": cfg.base_denom, "size": pa.size.to_string()}}),
                funds,
            ));
        }
    }
    if !bid_ids.is_empty() {
        let id = (*rng.pick(&bid_ids)).clone();
        reqs.push((json!({"cancel_bid": {"id": id}}), vec![]));
        reqs.push((json!({"expire_bid": {"id": id}}), vec![]));
        reqs.push((json!({"reject_bid": {"id": id}}), vec![]));
        if cfg.increment > 0 && book.bids[&id].unfilled() > cfg.increment {
            reqs.push((json!({"reject_bid": {"id": id, "size": cfg.increment.to_string()}}), vec![]));
        }
    }
    // a crossing pair, if any
    'outer: for (aid, a) in &book.asks {
        if a.class == AskClass::Pending {
            continue;
        }
        for (bid, b) in &book.bids {
            if b.v2 || a.quote != b.quote_denom {
                continue;
            }
            if let (crate::dec::Parsed::Ok(ap), crate::dec::Parsed::Ok(bp)) =
                (crate::dec::parse(&a.price), crate::dec::parse(&b.price))
            {
                if ap.cmp_val(&bp) != std::cmp::Ordering::Greater
                    && model::id_class(aid) == model::IdClass::Canonical
                    && model::id_class(bid) == model::IdClass::Canonical
                {
                    let s = a.size.min(b.unfilled());
                    reqs.push((
                        json!({"execute_match": {"ask_id": aid, "bid_id": bid, "price": b.price, "size": s.to_string()}}),
                        vec![],
                    ));
                    break 'outer;
                }
            }
        }
    }
    reqs.push((json!({"modify_contract": {}}), vec![]));
    {
        // a change that is admissible for an executor in every book state: approvers kept (plus
        // one), executors replaced
        let mut ap = cfg.approvers.clone();
        let newcomer = rng.pick(&sim.spec.accounts).clone();
        if !ap.contains(&newcomer) && crate::seams::addr_ok(&newcomer) {
            ap.push(newcomer.clone());
        }
        if !ap.is_empty() && crate::seams::addr_ok(&newcomer) {
            reqs.push((json!({"modify_contract": {"approvers": ap, "executors": [newcomer]}}), vec![]));
        }
    }
    let mut accounts = sim.spec.accounts.clone();
    // look-alikes of accounts that do hold a role: same letters, other case
    for src in [cfg.executors.first(), cfg.approvers.first(), book.asks.values().next().map(|a| &a.owner), book.bids.values().next().map(|b| &b.owner)].into_iter().flatten() {
        let up = src.to_uppercase();
        if !accounts.contains(&up) {
            accounts.push(up);
        }
    }
    // the same requests under another spelling of the order's id: whatever such a request does,
    // it must not let somebody act on the order who could not under its real id
    {
        let spell = |id: &str, k: u64| -> String {
            match k % 5 {
                0 => id.to_uppercase(),
                1 => format!("{{{}}}", id),
                2 => format!("urn:uuid:{}", id),
                3 => {
                    if id.contains('-') {
                        id.replace('-', "")
                    } else if id.len() == 32 {
                        format!("{}-{}-{}-{}-{}", &id[0..8], &id[8..12], &id[12..16], &id[16..20], &id[20..32])
                    } else {
                        id.to_string()
                    }
                }
                _ => id.chars().enumerate().map(|(i, c)| if i % 2 == 0 { c.to_ascii_uppercase() } else { c }).collect(),
            }
        };
        let k = rng.next();
        let mut spelled: Vec<(Value, char, String, bool)> = vec![]; // msg, side, real id, owner-only
        if !ask_ids.is_empty() {
            let id = (*rng.pick(&ask_ids)).clone();
            let sp = spell(&id, k);
            if sp != id && !book.asks.contains_key(&sp) {
                spelled.push((json!({"cancel_ask": {"id": sp}}), 'a', id.clone(), true));
                spelled.push((json!({"reject_ask": {"id": sp}}), 'a', id, false));
            }
        }
        if !bid_ids.is_empty() {
            let id = (*rng.pick(&bid_ids)).clone();
            let sp = spell(&id, k / 7);
            if sp != id && !book.bids.contains_key(&sp) {
                spelled.push((json!({"cancel_bid": {"id": sp}}), 'b', id.clone(), true));
                spelled.push((json!({"expire_bid": {"id": sp}}), 'b', id, false));
            }
        }
        for (msg, side, real, owner_only) in spelled {
            let kind = msg.as_object().unwrap().keys().next().unwrap().clone();
            let owner = if side == 'a' { book.asks[&real].owner.clone() } else { book.bids[&real].owner.clone() };
            for sender in &accounts {
                let authorised = if owner_only { sender == &owner } else { cfg.executors.contains(sender) };
                if authorised {
                    continue;
                }
                let mut fork = sim.chain.clone();
                let r = fork.deliver(sender, &[], &msg, &TxFaults::default());
                sim.cov.hit("C05", Fnv::new().str("spelled").str(&kind).u64(r.outcome.is_accepted() as u64).finish(), true);
                if r.outcome.is_accepted() {
                    sim.flag(
                        &["C05"],
                        "P-auth.unauthorised_accepted_under_other_spelling",
                        &kind,
                        "",
                        format!("{} from {} naming another spelling of order {} (owner {}) was accepted", kind, sender, real, owner),
                    );
                }
            }
        }
    }
    for (msg, funds) in reqs {
        let req = model::parse_req(&msg);
        let kind = req.kind().to_string();
        for sender in &accounts {
            let mut fork = sim.chain.clone();
            let r = fork.deliver(sender, &funds, &msg, &TxFaults::default());
            let exp = {
                let cx = sim.ctx(sender, &funds, &r.served, &book, &cfg);
                model::expect(&req, &cx)
            };
            let roles = format!(
                "{}{}{}{}",
                if cfg.executors.contains(sender) { "E" } else { "" },
                if cfg.approvers.contains(sender) { "A" } else { "" },
                if book.asks.values().any(|a| &a.owner == sender) || book.bids.values().any(|b| &b.owner == sender) { "O" } else { "" },
                if cfg.ask_fee.as_ref().map(|f| &f.account == sender).unwrap_or(false)
                    || cfg.bid_fee.as_ref().map(|f| &f.account == sender).unwrap_or(false) { "F" } else { "" },
            );
            let mut h = Fnv::new();
            h.str(&kind).str(&roles).u64(r.outcome.is_accepted() as u64);
            let (ai, bi) = req.named();
            let owns = ai.iter().any(|i| book.asks.get(i).map(|a| &a.owner == sender).unwrap_or(false))
                || bi.iter().any(|i| book.bids.get(i).map(|b| &b.owner == sender).unwrap_or(false));
            h.u64(owns as u64);
            sim.cov.hit("C05", h.finish(), true);
            match (&exp, &r.outcome) {
                (Expect::Refuse { reason }, Outcome::Accepted(_)) if reason.starts_with("not_") => {
                    sim.flag(
                        &["C05"],
                        "P-auth.unauthorised_accepted",
                        &kind,
                        &format!("{},roles={}", reason, roles),
                        format!(
                            "{} from {} (roles [{}], owner of the order: {}) was accepted; rule violated: {}",
                            kind, sender, roles, owns, reason
                        ),
                    );
                }
                (Expect::Refuse { .. }, Outcome::Refused(_)) => {
                    // "changes neither the book, the configuration nor any balance"
                    if fork.storage.data != sim.chain.storage.data || fork.ledger != sim.chain.ledger {
                        sim.flag(&["C05"], "P-auth.refused_but_changed", &kind, "", "refused request left changes".into());
                    }
                }
                _ => {}
            }
        }
    }
}

/// C16: every query kind x id class; results equal raw storage; storage untouched;
/// reported amounts equal what a cancel pays.
/// the configuration and version queries against the raw records (also used on the harness's
/// synthesised pre-migration state, where the stored version is an old or unreadable one)
pub fn probe_query_singletons(sim: &mut Sim) {
    let raw_json = |key: &[u8], sim: &Sim| -> Option<Value> {
        sim.chain.storage.data.get(key).and_then(|v| serde_json::from_slice::<Value>(v).ok())
    };
    for (q, key) in [
        (json!({"get_contract_info": {}}), b"contract_info".as_slice()),
        (json!({"get_version_info": {}}), b"version_info".as_slice()),
    ] {
        let got = sim.chain.query(&q);
        // a record is "stored" for this purpose only if it is a complete record of its format;
        // anything else is unreadable and the query has to fail
        let complete = if key == b"version_info" {
            book::read_version(&sim.chain.storage).is_some()
        } else {
            book::read_cfg(&sim.chain.storage).is_ok()
        };
        let want = if complete { raw_json(key, sim) } else { None };
        let mut h = Fnv::new();
        h.str(&q.to_string()).u64(want.is_some() as u64);
        sim.cov.hit("C16", h.finish(), true);
        match (&got, &want) {
            (Ok(g), Some(w)) if g == w => {}
            (Err(_), None) => {}
            _ => sim.flag(
                &["C16"],
                "P-query.singleton",
                "query",
                if key == b"contract_info" { "contract_info" } else { "version_info" },
                format!("query {} returned {:?}, storage holds {:?}", q, got, want),
            ),
        }
    }
}

pub fn probe_query(sim: &mut Sim) {
    let book = sim.book.clone();
    let mut rng = probe_rng(sim, 0x16);
    let before = sim.chain.storage.data.clone();
    let raw_json = |key: &[u8], sim: &Sim| -> Option<Value> {
        sim.chain.storage.data.get(key).and_then(|v| serde_json::from_slice::<Value>(v).ok())
    };
    probe_query_singletons(sim);
    // ids to ask about
    let mut ids: Vec<(String, &'static str)> = vec![];
    for id in book.asks.keys() {
        ids.push((id.clone(), "open_ask"));
    }
    for id in book.bids.keys() {
        ids.push((id.clone(), "open_bid"));
    }
    let closed: Vec<(char, String)> = sim.closed.iter().cloned().collect();
    if !closed.is_empty() {
        for _ in 0..2 {
            let c = rng.pick(&closed);
            ids.push((c.1.clone(), "closed"));
        }
    }
    ids.push((rng.uuid(), "never_used"));
    let u = rng.uuid();
    ids.push((u.replace('-', ""), "never_used_legacy"));
    if let Some(id) = book.asks.keys().next() {
        ids.push((id.replace('-', ""), "other_spelling_of_open"));
        ids.push((id.to_uppercase(), "other_spelling_of_open"));
    }
    for m in ["", "not-a-uuid", "1234", "zzzzzzzz-zzzz-zzzz-zzzz-zzzzzzzzzzzz"] {
        ids.push((m.to_string(), "malformed"));
    }
    if ids.len() > 14 {
        // bound the cost per state: keep a seeded sample plus the special classes
        let mut keep: Vec<(String, &'static str)> = vec![];
        let opens: Vec<(String, &'static str)> = ids.iter().filter(|x| x.1.starts_with("open")).cloned().collect();
        for _ in 0..4 {
            keep.push(rng.pick(&opens).clone());
        }
        keep.extend(ids.iter().filter(|x| !x.1.starts_with("open")).cloned());
        ids = keep;
    }
    for (id, class) in ids {
        for side in ['a', 'b'] {
            let q = if side == 'a' { json!({"get_ask": {"id": id}}) } else { json!({"get_bid": {"id": id}}) };
            let got = sim.chain.query(&q);
            let key = if side == 'a' { book::ask_key(&id) } else { book::bid_key(&id) };
            let want = raw_json(&key, sim);
            let mut h = Fnv::new();
            h.str(if side == 'a' { "get_ask" } else { "get_bid" }).str(class).u64(want.is_some() as u64).u64(got.is_ok() as u64);
            sim.cov.hit("C16", h.finish(), true);
            match (&got, &want) {
                (Ok(g), Some(w)) => {
                    // an order with nothing remaining is a completely filled / rejected order:
                    // queries must fail for it
                    let nothing_left = if side == 'a' {
                        book::decode_ask_value(g).map(|a| a.size == 0).unwrap_or(false)
                    } else {
                        book::decode_bid_value(g).map(|b| b.unfilled() == 0).unwrap_or(false)
                    };
                    if nothing_left {
                        sim.flag(
                            &["C16"],
                            "P-query.returned_completed_order",
                            "query",
                            class,
                            format!("query {} returned an order with nothing remaining: {}", q, g),
                        );
                    }
                    if g != w {
                        sim.flag(
                            &["C16"],
                            "P-query.order_differs",
                            "query",
                            class,
                            format!("query {} returned {} but the book holds {}", q, g, w),
                        );
                    }
                }
                (Err(_), None) => {}
                (Ok(g), None) => sim.flag(
                    &["C16"],
                    "P-query.returned_order_not_on_book",
                    "query",
                    class,
                    format!("query {} returned {} for an id not on that side of the book", q, g),
                ),
                (Err(e), Some(_)) => sim.flag(
                    &["C16"],
                    "P-query.failed_for_open_order",
                    "query",
                    class,
                    format!("query {} failed ({}) although the order is on the book", q, e),
                ),
            }
        }
    }
    if sim.chain.storage.data != before {
        sim.flag(&["C16"], "P-query.state_modified", "query", "", "a query modified storage".into());
    }
    // what a query reports is what a cancel returns (one seeded order per side)
    let contract = sim.chain.contract.clone();
    if !book.asks.is_empty() {
        let ids: Vec<&String> = book.asks.keys().collect();
        let id = (*rng.pick(&ids)).clone();
        if let Ok(v) = sim.chain.query(&json!({"get_ask": {"id": id}})) {
            if let Ok(a) = book::decode_ask_value(&v) {
                let mut fork = sim.chain.clone();
                let r = fork.deliver(&a.owner, &[], &json!({"cancel_ask": {"id": id}}), &TxFaults::default());
                if r.outcome.is_accepted() {
                    let mut want: BTreeMap<(String, String), i128> = BTreeMap::new();
                    for (d, x) in owed_ask(&a) {
                        let to = if d == a.base { a.owner.clone() } else {
                            match &a.class { AskClass::Ready { approver, .. } => approver.clone(), _ => a.owner.clone() }
                        };
                        *want.entry((to, d.clone())).or_insert(0) += x as i128;
                        *want.entry((contract.clone(), d)).or_insert(0) -= x as i128;
                    }
                    want.retain(|_, v| *v != 0);
                    sim.cov.hit("C16", Fnv::new().str("cancel_vs_query_ask").str(a.class.tag()).finish(), true);
                    if want != r.deltas {
                        sim.flag(
                            &["C16"],
                            "P-query.amounts_vs_cancel",
                            "query",
                            "ask",
                            format!("get_ask reports {:?} but a cancel returns {:?}", want, r.deltas),
                        );
                    }
                    if fork.query(&json!({"get_ask": {"id": id}})).is_ok() {
                        sim.flag(&["C16"], "P-query.cancelled_order_still_reported", "query", "ask", format!("get_ask still answers for {} after its cancel succeeded", id));
                    }
                }
            }
        }
    }
    let bid_ids: Vec<&String> = book.bids.keys().filter(|k| !book.bids[*k].v2).collect();
    if !bid_ids.is_empty() {
        let id = (*rng.pick(&bid_ids)).clone();
        if let Ok(v) = sim.chain.query(&json!({"get_bid": {"id": id}})) {
            if let Ok(b) = book::decode_bid_value(&v) {
                let mut fork = sim.chain.clone();
                let r = fork.deliver(&b.owner, &[], &json!({"cancel_bid": {"id": id}}), &TxFaults::default());
                if r.outcome.is_accepted() {
                    let mut want: BTreeMap<(String, String), i128> = BTreeMap::new();
                    for (d, x) in owed_bid(&b) {
                        *want.entry((b.owner.clone(), d.clone())).or_insert(0) += x as i128;
                        *want.entry((contract.clone(), d)).or_insert(0) -= x as i128;
                    }
                    want.retain(|_, v| *v != 0);
                    sim.cov.hit("C16", Fnv::new().str("cancel_vs_query_bid").u64(b.fee.is_some() as u64).finish(), true);
                    if want != r.deltas {
                        sim.flag(
                            &["C16"],
                            "P-query.amounts_vs_cancel",
                            "query",
                            "bid",
                            format!("get_bid reports {:?} but a cancel returns {:?}", want, r.deltas),
                        );
                    }
                    if fork.query(&json!({"get_bid": {"id": id}})).is_ok() {
                        sim.flag(&["C16"], "P-query.cancelled_order_still_reported", "query", "bid", format!("get_bid still answers for {} after its cancel succeeded", id));
                    }
                }
            }
        }
    }
}
