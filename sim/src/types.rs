//! World specification, steps (the replay vocabulary), violations, coverage, shadow book.

use crate::chain::{CoinS, TxFaults};
use crate::rng::Fnv;
use serde::{Deserialize, Serialize};
use serde_json::Value;
use std::collections::{BTreeMap, BTreeSet};

pub const PROPS: [&str; 17] = [
    "C01", "C02", "C03", "C04", "C05", "C06", "C07", "C08", "C09", "C10", "C11", "C12", "C13",
    "C14", "C15", "C16", "C17",
];

pub fn prop_index(p: &str) -> Option<usize> {
    PROPS.iter().position(|x| *x == p)
}

#[derive(Clone, Debug, Serialize, Deserialize, PartialEq)]
pub struct SeedOrder {
    /// "ask" | "bid"
    pub side: String,
    /// id part of the storage key (legacy un-hyphenated ids are seeded this way)
    pub key_id: String,
    /// the stored JSON
    pub value: Value,
}

#[derive(Clone, Debug, Serialize, Deserialize, PartialEq)]
pub struct WorldSpec {
    pub contract: String,
    pub creator: String,
    pub instantiate: Value,
    pub markers: BTreeMap<String, u8>,
    pub attrs: BTreeMap<String, Vec<String>>,
    pub accounts: Vec<String>,
    #[serde(default)]
    pub seeds: Vec<SeedOrder>,
    pub height: u64,
    pub time_ns: u64,
    /// seed for the probes' own choices (which order to probe, which id to query)
    #[serde(default)]
    pub probe_seed: u64,
    /// markers that additionally list required attributes (still restricted / unrestricted as per `markers`)
    #[serde(default)]
    pub marker_required_attrs: BTreeMap<String, Vec<String>>,
    /// marker status per denomination (1 proposed, 2 finalized, 3 active (default), 4 cancelled)
    #[serde(default)]
    pub marker_status: BTreeMap<String, i32>,
}

#[derive(Clone, Debug, Serialize, Deserialize, PartialEq)]
#[serde(tag = "op", rename_all = "snake_case")]
pub enum Step {
    Exec {
        sender: String,
        #[serde(default)]
        funds: Vec<CoinS>,
        msg: Value,
        #[serde(default, skip_serializing_if = "is_default_faults")]
        faults: TxFaults,
    },
    SetMarker {
        denom: String,
        kind: u8,
    },
    SetAttrs {
        account: String,
        names: Vec<String>,
    },
    Restart,
    Advance {
        blocks: u64,
    },
    Migrate {
        /// rewrite the stored version string first (None = leave)
        set_version: Option<String>,
        msg: Value,
        /// bids to rewrite into the old event-log format before migrating
        #[serde(default)]
        v2_ids: Vec<String>,
        /// seed deciding how each bid's consumed amounts are split into events
        #[serde(default)]
        v2_seed: u64,
        /// run the identical migration a second time
        #[serde(default)]
        twice: bool,
        /// keep a never-rewritten twin and compare the continuation step by step
        #[serde(default)]
        twin: bool,
    },
}

fn is_default_faults(f: &TxFaults) -> bool {
    !f.any()
}

#[derive(Clone, Debug, Serialize, Deserialize, PartialEq)]
pub struct Violation {
    /// properties whose statement this observation contradicts
    pub props: Vec<String>,
    pub oracle: String,
    /// request kind of the failing step
    pub kind: String,
    /// canonical qualifiers (part of the known-findings signature)
    pub qual: String,
    pub step: usize,
    pub detail: String,
}

impl Violation {
    pub fn signature(&self) -> String {
        format!("{}|{}|{}", self.oracle, self.kind, self.qual)
    }
    pub fn concerns(&self, prop: &str) -> bool {
        self.props.iter().any(|p| p == prop)
    }
}

#[derive(Clone, Debug, Serialize, Deserialize)]
pub struct ReplayFile {
    pub property: String,
    pub seed: u64,
    pub run: u64,
    pub profile: String,
    pub world: WorldSpec,
    pub steps: Vec<Step>,
    pub violation: Violation,
    #[serde(default)]
    pub minimised_from: usize,
}

// ---------------------------------------------------------------- coverage

#[derive(Clone, Debug, Default)]
pub struct PropCov {
    pub evaluations: u64,
    pub distinct: BTreeSet<u64>,
}

#[derive(Clone, Debug, Default)]
pub struct Cov {
    pub props: Vec<PropCov>,
    pub probes: BTreeMap<&'static str, u64>,
    pub kinds: BTreeMap<String, [u64; 3]>, // delivered, accepted, refused
    pub refusal_reasons: BTreeMap<String, u64>,
    pub faults: BTreeMap<&'static str, u64>,
    pub dontcare: BTreeMap<&'static str, u64>,
    pub soft_refusals: BTreeMap<String, u64>,
    pub states: BTreeSet<u64>,
    pub transitions: BTreeSet<u64>,
    pub steps: u64,
    pub blocks: u64,
    pub runs: u64,
    pub l2_decisions: u64,
    pub instantiate_cases: u64,
    /// when set, distinct fingerprints are kept only for this property (the one being checked)
    pub only: Option<usize>,
    /// coverage cells: (request kind + case tags of the model's accepted alternative) -> hits
    pub cells: BTreeMap<String, u64>,
}

pub const DISTINCT_CAP: usize = 1_500_000;

impl Cov {
    pub fn new() -> Cov {
        Cov {
            props: vec![PropCov::default(); PROPS.len()],
            ..Default::default()
        }
    }
    pub fn hit(&mut self, prop: &str, h: u64, nontrivial: bool) {
        if let Some(i) = prop_index(prop) {
            let p = &mut self.props[i];
            p.evaluations += 1;
            if nontrivial && self.only.map(|o| o == i).unwrap_or(true) && p.distinct.len() < DISTINCT_CAP {
                p.distinct.insert(h);
            }
        }
    }
    pub fn probe(&mut self, name: &'static str) {
        *self.probes.entry(name).or_insert(0) += 1;
    }
    pub fn fault(&mut self, name: &'static str) {
        *self.faults.entry(name).or_insert(0) += 1;
    }
    pub fn merge(&mut self, o: &Cov) {
        if self.props.len() < o.props.len() {
            self.props.resize(o.props.len(), PropCov::default());
        }
        for (i, p) in o.props.iter().enumerate() {
            self.props[i].evaluations += p.evaluations;
            for h in &p.distinct {
                if self.props[i].distinct.len() < DISTINCT_CAP {
                    self.props[i].distinct.insert(*h);
                }
            }
        }
        for (k, v) in &o.probes {
            *self.probes.entry(k).or_insert(0) += v;
        }
        for (k, v) in &o.kinds {
            let e = self.kinds.entry(k.clone()).or_insert([0; 3]);
            for i in 0..3 {
                e[i] += v[i];
            }
        }
        for (k, v) in &o.refusal_reasons {
            *self.refusal_reasons.entry(k.clone()).or_insert(0) += v;
        }
        for (k, v) in &o.faults {
            *self.faults.entry(k).or_insert(0) += v;
        }
        for (k, v) in &o.dontcare {
            *self.dontcare.entry(k).or_insert(0) += v;
        }
        for (k, v) in &o.soft_refusals {
            *self.soft_refusals.entry(k.clone()).or_insert(0) += v;
        }
        for h in &o.states {
            if self.states.len() < DISTINCT_CAP {
                self.states.insert(*h);
            }
        }
        for h in &o.transitions {
            if self.transitions.len() < DISTINCT_CAP {
                self.transitions.insert(*h);
            }
        }
        for (k, v) in &o.cells {
            *self.cells.entry(k.clone()).or_insert(0) += v;
        }
        self.steps += o.steps;
        self.blocks += o.blocks;
        self.runs += o.runs;
        self.l2_decisions += o.l2_decisions;
        self.instantiate_cases += o.instantiate_cases;
    }
}

pub fn hash_strs(parts: &[&str]) -> u64 {
    let mut h = Fnv::new();
    for p in parts {
        h.str(p);
    }
    h.finish()
}

// ---------------------------------------------------------------- shadow book (C17 consumer)

#[derive(Clone, Debug, PartialEq)]
pub struct ShadowAsk {
    pub remaining: u128,
    /// "plain" | "pending" | "ready"
    pub state: String,
    // generator-side knowledge (public on chain, not part of the C17 comparison)
    pub owner: String,
    pub base: String,
    pub quote: String,
    pub price: String,
    pub born: u64,
}

#[derive(Clone, Debug, PartialEq)]
pub struct ShadowBid {
    pub remaining: u128,
    pub owner: String,
    pub quote: String,
    pub price: String,
    pub born: u64,
}

#[derive(Clone, Debug, Default, PartialEq)]
pub struct Shadow {
    pub asks: BTreeMap<String, ShadowAsk>,
    pub bids: BTreeMap<String, ShadowBid>,
}

fn attr<'a>(attrs: &'a [(String, String)], k: &str) -> Option<&'a str> {
    attrs.iter().find(|(a, _)| a == k).map(|(_, v)| v.as_str())
}

fn class_state(class_json: &str) -> String {
    let l = class_json.to_ascii_lowercase();
    if l.contains("ready") || l.contains("approved") {
        "ready".into()
    } else if l.contains("pending") {
        "pending".into()
    } else {
        "plain".into()
    }
}

impl Shadow {
    /// Keep the off-chain record in step using nothing but the response attributes
    /// (plus the transaction sender, which is public).
    pub fn apply(&mut self, attrs: &[(String, String)], sender: &str, height: u64) {
        let action = match attr(attrs, "action") {
            Some(a) => a,
            None => return,
        };
        let num = |k: &str| attr(attrs, k).and_then(|v| v.parse::<u128>().ok());
        match action {
            "create_ask" => {
                if let (Some(id), Some(size)) = (attr(attrs, "id"), num("size")) {
                    self.asks.insert(
                        id.to_string(),
                        ShadowAsk {
                            remaining: size,
                            state: class_state(attr(attrs, "class").unwrap_or("")),
                            owner: sender.to_string(),
                            base: attr(attrs, "base").unwrap_or("").to_string(),
                            quote: attr(attrs, "quote").unwrap_or("").to_string(),
                            price: attr(attrs, "price").unwrap_or("").to_string(),
                            born: height,
                        },
                    );
                }
            }
            "create_bid" => {
                if let (Some(id), Some(size)) = (attr(attrs, "id"), num("size")) {
                    self.bids.insert(
                        id.to_string(),
                        ShadowBid {
                            remaining: size,
                            owner: sender.to_string(),
                            quote: attr(attrs, "quote").unwrap_or("").to_string(),
                            price: attr(attrs, "price").unwrap_or("").to_string(),
                            born: height,
                        },
                    );
                }
            }
            "approve_ask" => {
                if let Some(id) = attr(attrs, "id") {
                    if let Some(a) = self.asks.get_mut(id) {
                        a.state = class_state(attr(attrs, "class").unwrap_or(""));
                    }
                }
            }
            "cancel_ask" => {
                if let Some(id) = attr(attrs, "id") {
                    self.asks.remove(id);
                }
            }
            "expire_ask" | "reject_ask" => {
                if let Some(id) = attr(attrs, "id") {
                    let open = attr(attrs, "order_open") != Some("false");
                    if let Some(a) = self.asks.get_mut(id) {
                        a.remaining = a.remaining.saturating_sub(num("reverse_size").unwrap_or(0));
                    }
                    if !open {
                        self.asks.remove(id);
                    }
                }
            }
            "cancel_bid" | "expire_bid" | "reject_bid" => {
                if let Some(id) = attr(attrs, "id") {
                    let open = attr(attrs, "order_open") != Some("false");
                    if let Some(b) = self.bids.get_mut(id) {
                        b.remaining = b.remaining.saturating_sub(num("reverse_size").unwrap_or(0));
                    }
                    if !open {
                        self.bids.remove(id);
                    }
                }
            }
            "execute" => {
                let s = num("size").unwrap_or(0);
                if let Some(id) = attr(attrs, "ask_id") {
                    let mut gone = false;
                    if let Some(a) = self.asks.get_mut(id) {
                        a.remaining = a.remaining.saturating_sub(s);
                        gone = a.remaining == 0;
                    }
                    if gone {
                        self.asks.remove(id);
                    }
                }
                if let Some(id) = attr(attrs, "bid_id") {
                    let mut gone = false;
                    if let Some(b) = self.bids.get_mut(id) {
                        b.remaining = b.remaining.saturating_sub(s);
                        gone = b.remaining == 0;
                    }
                    if gone {
                        self.bids.remove(id);
                    }
                }
            }
            _ => {}
        }
    }
}
