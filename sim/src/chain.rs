//! SimChain: transaction atomicity, bank/marker message dispatch, the ledger.
//! The contract's entry points are the real code from /repo.

use crate::seams::{InjectedAbort, QueryFaultKind, Served, SimApi, SimQuerier, SimStorage};
use ats_smart_contract::contract::{execute, instantiate, migrate, query};
use ats_smart_contract::msg::{ExecuteMsg, InstantiateMsg, MigrateMsg, QueryMsg};
use cosmwasm_std::{
    Addr, BankMsg, BlockInfo, Coin, ContractInfo, CosmosMsg, Deps, DepsMut, Empty, Env,
    MessageInfo, QuerierWrapper, Response, Timestamp, TransactionInfo, Uint128,
};
use prost::Message;
use provwasm_std::types::provenance::marker::v1::MsgTransferRequest;
use serde::{Deserialize, Serialize};
use serde_json::Value;
use std::collections::BTreeMap;
use std::panic::{catch_unwind, AssertUnwindSafe};

pub type Ledger = BTreeMap<(String, String), i128>;

#[derive(Clone, Debug, PartialEq, Serialize, Deserialize)]
pub struct CoinS {
    pub denom: String,
    pub amount: String,
}
impl CoinS {
    pub fn new(amount: u128, denom: &str) -> CoinS {
        CoinS {
            denom: denom.to_string(),
            amount: amount.to_string(),
        }
    }
    pub fn amt(&self) -> u128 {
        self.amount.parse().unwrap_or(0)
    }
}

#[derive(Clone, Copy, Debug, PartialEq, Serialize, Deserialize)]
pub enum Mech {
    Bank,
    Marker,
}

/// One fund movement requested by the contract, decoded from a response message.
#[derive(Clone, Debug, PartialEq)]
pub struct Xfer {
    pub mech: Mech,
    pub from: String,
    pub to: String,
    pub denom: String,
    pub amount: u128,
    /// marker transfers only
    pub admin: String,
    /// number of coins in the bank send (must be 1)
    pub ncoins: usize,
}

#[derive(Clone, Debug, PartialEq)]
pub enum Refusal {
    /// request JSON did not deserialize into the contract's message type
    Parse(String),
    /// contract returned Err
    Error(String),
    /// contract panicked (wasm trap on chain)
    Panic(String),
    /// injected gas exhaustion
    InjectedAbort,
    /// a message the contract emitted could not be carried out (insufficient contract funds, malformed)
    Dispatch(String),
    /// injected bank/marker module failure
    InjectedDispatch,
}

impl Refusal {
    pub fn injected(&self) -> bool {
        matches!(self, Refusal::InjectedAbort | Refusal::InjectedDispatch)
    }
    pub fn class(&self) -> &'static str {
        match self {
            Refusal::Parse(_) => "parse",
            Refusal::Error(_) => "error",
            Refusal::Panic(_) => "panic",
            Refusal::InjectedAbort => "inj_abort",
            Refusal::Dispatch(_) => "dispatch",
            Refusal::InjectedDispatch => "inj_dispatch",
        }
    }
    pub fn text(&self) -> String {
        match self {
            Refusal::Parse(s) | Refusal::Error(s) | Refusal::Panic(s) | Refusal::Dispatch(s) => {
                s.clone()
            }
            Refusal::InjectedAbort => "injected abort".into(),
            Refusal::InjectedDispatch => "injected dispatch failure".into(),
        }
    }
}

#[derive(Clone, Debug)]
pub struct Accepted {
    pub xfers: Vec<Xfer>,
    /// messages that are neither a bank send nor a marker transfer, or malformed ones
    pub foreign_msgs: Vec<String>,
    pub attrs: Vec<(String, String)>,
    pub has_data: bool,
    pub has_events: bool,
    pub has_reply: bool,
}

#[derive(Clone, Debug)]
pub enum Outcome {
    Accepted(Accepted),
    Refused(Refusal),
}

impl Outcome {
    pub fn is_accepted(&self) -> bool {
        matches!(self, Outcome::Accepted(_))
    }
}

#[derive(Clone, Debug, Default, PartialEq, Serialize, Deserialize)]
pub struct TxFaults {
    /// abort at the k-th storage operation (1-based) of the contract call
    #[serde(default, skip_serializing_if = "Option::is_none")]
    pub gas_abort_at: Option<u64>,
    /// fail dispatch of the i-th message (0-based; clamped to the last message)
    #[serde(default, skip_serializing_if = "Option::is_none")]
    pub dispatch_fail: Option<u32>,
    /// fail the n-th querier call: (n, "system" | "contract")
    #[serde(default, skip_serializing_if = "Option::is_none")]
    pub query_fail: Option<(u32, String)>,
}

impl TxFaults {
    pub fn any(&self) -> bool {
        self.gas_abort_at.is_some() || self.dispatch_fail.is_some() || self.query_fail.is_some()
    }
}

#[derive(Clone, Debug)]
pub struct TxResult {
    pub outcome: Outcome,
    pub served: Vec<Served>,
    /// the first message (index, description) that would have overdrawn the contract (I-fund)
    pub overdraft: Option<(usize, String)>,
    pub storage_ops: u64,
    pub faults_fired: FiredFaults,
    /// ledger deltas of this transaction (zero entries removed); empty when refused
    pub deltas: BTreeMap<(String, String), i128>,
    /// what the contract asked for (its Ok response), whether or not the chain could carry it out
    pub emitted: Option<Accepted>,
}

#[derive(Clone, Copy, Debug, Default)]
pub struct FiredFaults {
    pub gas_abort: bool,
    pub dispatch_fail: bool,
    pub query_fail: bool,
}

#[derive(Clone)]
pub struct Chain {
    pub storage: SimStorage,
    pub querier: SimQuerier,
    pub ledger: Ledger,
    pub contract: String,
    pub height: u64,
    pub time_ns: u64,
    pub chain_id: String,
}

pub fn install_quiet_panic_hook() {
    // contract panics are expected (wasm traps) and caught; DSIM_PANIC=1 shows them for debugging
    if std::env::var("DSIM_PANIC").is_err() {
        std::panic::set_hook(Box::new(|_| {}));
    }
}

fn panic_text(p: &Box<dyn std::any::Any + Send>) -> String {
    if let Some(s) = p.downcast_ref::<&str>() {
        s.to_string()
    } else if let Some(s) = p.downcast_ref::<String>() {
        s.clone()
    } else {
        "panic".to_string()
    }
}

impl Chain {
    pub fn new(contract: &str) -> Chain {
        Chain {
            storage: SimStorage::new(),
            querier: SimQuerier::default(),
            ledger: Ledger::new(),
            contract: contract.to_string(),
            height: 1000,
            time_ns: 1_600_000_000_000_000_000,
            chain_id: "sim-1".into(),
        }
    }

    pub fn env(&self) -> Env {
        Env {
            block: BlockInfo {
                height: self.height,
                time: Timestamp::from_nanos(self.time_ns),
                chain_id: self.chain_id.clone(),
            },
            transaction: Some(TransactionInfo { index: 0 }),
            contract: ContractInfo {
                address: Addr::unchecked(self.contract.clone()),
            },
        }
    }

    pub fn bal(&self, acct: &str, denom: &str) -> i128 {
        *self
            .ledger
            .get(&(acct.to_string(), denom.to_string()))
            .unwrap_or(&0)
    }

    pub fn credit(ledger: &mut Ledger, acct: &str, denom: &str, amt: i128) {
        let e = ledger
            .entry((acct.to_string(), denom.to_string()))
            .or_insert(0);
        *e += amt;
    }

    pub fn contract_balances(&self) -> BTreeMap<String, i128> {
        let mut m = BTreeMap::new();
        for ((a, d), v) in &self.ledger {
            if a == &self.contract && *v != 0 {
                m.insert(d.clone(), *v);
            }
        }
        m
    }

    /// Node restart: only the bytes of the KV store survive; seam objects are rebuilt.
    pub fn restart(&mut self) {
        let bytes = self.storage.dump();
        self.storage = SimStorage::restore(&bytes);
        let q = SimQuerier {
            markers: self.querier.markers.clone(),
            marker_required_attrs: self.querier.marker_required_attrs.clone(),
            marker_status: self.querier.marker_status.clone(),
            attrs: self.querier.attrs.clone(),
            ..Default::default()
        };
        self.querier = q;
    }

    pub fn instantiate(&mut self, creator: &str, msg_json: &Value) -> Result<Accepted, Refusal> {
        let msg: InstantiateMsg = match serde_json::from_value(msg_json.clone()) {
            Ok(m) => m,
            Err(e) => return Err(Refusal::Parse(e.to_string())),
        };
        let snapshot = self.storage.clone();
        self.storage.reset_counters();
        self.querier.begin_tx();
        let env = self.env();
        let info = MessageInfo {
            sender: Addr::unchecked(creator),
            funds: vec![],
        };
        let api = SimApi;
        let r = {
            let storage = &mut self.storage;
            let querier = &self.querier;
            catch_unwind(AssertUnwindSafe(|| {
                let deps = DepsMut {
                    storage,
                    api: &api,
                    querier: QuerierWrapper::<Empty>::new(querier),
                };
                instantiate(deps, env, info, msg)
            }))
        };
        match r {
            Ok(Ok(resp)) => Ok(decode_response(&resp, &self.contract)),
            Ok(Err(e)) => {
                self.storage = snapshot;
                Err(Refusal::Error(e.to_string()))
            }
            Err(p) => {
                self.storage = snapshot;
                Err(Refusal::Panic(panic_text(&p)))
            }
        }
    }

    /// Deliver one execute transaction atomically.
    pub fn deliver(
        &mut self,
        sender: &str,
        funds: &[CoinS],
        msg_json: &Value,
        faults: &TxFaults,
    ) -> TxResult {
        let mut fired = FiredFaults::default();
        let msg: ExecuteMsg = match serde_json::from_value(msg_json.clone()) {
            Ok(m) => m,
            Err(e) => {
                return TxResult {
                    outcome: Outcome::Refused(Refusal::Parse(e.to_string())),
                    served: vec![],
                    overdraft: None,
                    storage_ops: 0,
                    faults_fired: fired,
                    deltas: BTreeMap::new(),
                    emitted: None,
                }
            }
        };
        let snap_storage = self.storage.data.clone();
        let snap_ledger = self.ledger.clone();

        // attached funds move first
        let mut cw_funds: Vec<Coin> = Vec::new();
        for c in funds {
            let a = c.amt();
            Chain::credit(&mut self.ledger, sender, &c.denom, -(a as i128));
            Chain::credit(&mut self.ledger, &self.contract.clone(), &c.denom, a as i128);
            cw_funds.push(Coin {
                denom: c.denom.clone(),
                amount: Uint128::new(a),
            });
        }

        self.storage.reset_counters();
        self.querier.begin_tx();
        if let Some(k) = faults.gas_abort_at {
            self.storage.abort_at.set(Some(k));
        }
        if let Some((n, kind)) = &faults.query_fail {
            let k = if kind == "system" {
                QueryFaultKind::System
            } else {
                QueryFaultKind::Contract
            };
            self.querier.fail_nth.set(Some((*n, k)));
        }
        let qf_before = self.querier.faults_fired.get();
        let env = self.env();
        let info = MessageInfo {
            sender: Addr::unchecked(sender),
            funds: cw_funds,
        };
        let api = SimApi;
        let r = {
            let storage = &mut self.storage;
            let querier = &self.querier;
            catch_unwind(AssertUnwindSafe(|| {
                let deps = DepsMut {
                    storage,
                    api: &api,
                    querier: QuerierWrapper::<Empty>::new(querier),
                };
                execute(deps, env, info, msg)
            }))
        };
        let ops = self.storage.ops.get();
        self.storage.abort_at.set(None);
        fired.query_fail = self.querier.faults_fired.get() > qf_before;
        let served = self.querier.take_served();

        let mut overdraft = None;
        let mut emitted: Option<Accepted> = None;
        let outcome = match r {
            Err(p) => {
                if p.downcast_ref::<InjectedAbort>().is_some() {
                    fired.gas_abort = true;
                    Outcome::Refused(Refusal::InjectedAbort)
                } else {
                    Outcome::Refused(Refusal::Panic(panic_text(&p)))
                }
            }
            Ok(Err(e)) => Outcome::Refused(Refusal::Error(e.to_string())),
            Ok(Ok(resp)) => {
                let acc = decode_response(&resp, &self.contract);
                emitted = Some(acc.clone());
                // dispatch in order
                let mut failure: Option<Refusal> = None;
                if !acc.foreign_msgs.is_empty() {
                    failure = Some(Refusal::Dispatch(format!(
                        "unsupported message: {}",
                        acc.foreign_msgs[0]
                    )));
                }
                if failure.is_none() {
                    let nmsg = acc.xfers.len();
                    let fail_idx = faults
                        .dispatch_fail
                        .map(|i| (i as usize).min(nmsg.saturating_sub(1)));
                    for (i, x) in acc.xfers.iter().enumerate() {
                        if fail_idx == Some(i) && nmsg > 0 {
                            fired.dispatch_fail = true;
                            failure = Some(Refusal::InjectedDispatch);
                            break;
                        }
                        // the two module rules that make a request fail on a real chain:
                        // the bank refuses zero coins, and the marker module only transfers
                        // coins of restricted markers
                        if x.amount == 0 {
                            failure = Some(Refusal::Dispatch(format!(
                                "message {}: zero amount of {} is not a valid coin",
                                i, x.denom
                            )));
                            break;
                        }
                        if x.mech == Mech::Marker
                            && self.querier.markers.get(&x.denom).copied().unwrap_or(0) != 2
                        {
                            failure = Some(Refusal::Dispatch(format!(
                                "message {}: marker transfer of {} which is not a restricted marker",
                                i, x.denom
                            )));
                            break;
                        }
                        Chain::credit(&mut self.ledger, &x.from, &x.denom, -(x.amount as i128));
                        Chain::credit(&mut self.ledger, &x.to, &x.denom, x.amount as i128);
                        if x.from == self.contract && self.bal(&self.contract.clone(), &x.denom) < 0
                        {
                            overdraft = Some((
                                i,
                                format!(
                                    "message {} sends {} {} to {} but the contract holds only {}",
                                    i,
                                    x.amount,
                                    x.denom,
                                    x.to,
                                    self.bal(&self.contract.clone(), &x.denom) + x.amount as i128
                                ),
                            ));
                            failure = Some(Refusal::Dispatch("insufficient funds".into()));
                            break;
                        }
                    }
                }
                match failure {
                    Some(f) => Outcome::Refused(f),
                    None => Outcome::Accepted(acc),
                }
            }
        };

        let mut deltas = BTreeMap::new();
        if outcome.is_accepted() {
            for (k, v) in &self.ledger {
                let before = *snap_ledger.get(k).unwrap_or(&0);
                if *v != before {
                    deltas.insert(k.clone(), *v - before);
                }
            }
        } else {
            self.storage.data = snap_storage;
            self.ledger = snap_ledger;
        }
        TxResult {
            outcome,
            served,
            overdraft,
            storage_ops: ops,
            faults_fired: fired,
            deltas,
            emitted,
        }
    }

    /// migrate entry point (atomic like a transaction)
    pub fn migrate(&mut self, msg_json: &Value) -> Outcome {
        let msg: MigrateMsg = match serde_json::from_value(msg_json.clone()) {
            Ok(m) => m,
            Err(e) => return Outcome::Refused(Refusal::Parse(e.to_string())),
        };
        let snap = self.storage.data.clone();
        self.storage.reset_counters();
        self.querier.begin_tx();
        let env = self.env();
        let api = SimApi;
        let r = {
            let storage = &mut self.storage;
            let querier = &self.querier;
            catch_unwind(AssertUnwindSafe(|| {
                let deps = DepsMut {
                    storage,
                    api: &api,
                    querier: QuerierWrapper::<Empty>::new(querier),
                };
                migrate(deps, env, msg)
            }))
        };
        match r {
            Ok(Ok(resp)) => {
                let acc = decode_response(&resp, &self.contract);
                if !acc.xfers.is_empty() || !acc.foreign_msgs.is_empty() {
                    // a migration has no funds to move; treat as refused by the chain
                    self.storage.data = snap;
                    return Outcome::Refused(Refusal::Dispatch("migrate emitted messages".into()));
                }
                Outcome::Accepted(acc)
            }
            Ok(Err(e)) => {
                self.storage.data = snap;
                Outcome::Refused(Refusal::Error(e.to_string()))
            }
            Err(p) => {
                self.storage.data = snap;
                Outcome::Refused(Refusal::Panic(panic_text(&p)))
            }
        }
    }

    /// query entry point; never mutates (Deps holds &dyn Storage)
    pub fn query(&self, msg_json: &Value) -> Result<Value, String> {
        let msg: QueryMsg = match serde_json::from_value(msg_json.clone()) {
            Ok(m) => m,
            Err(e) => return Err(format!("parse: {}", e)),
        };
        let env = self.env();
        let api = SimApi;
        let r = catch_unwind(AssertUnwindSafe(|| {
            let deps = Deps {
                storage: &self.storage,
                api: &api,
                querier: QuerierWrapper::<Empty>::new(&self.querier),
            };
            query(deps, env, msg)
        }));
        match r {
            Ok(Ok(bin)) => serde_json::from_slice::<Value>(bin.as_slice())
                .map_err(|e| format!("result not json: {}", e)),
            Ok(Err(e)) => Err(e.to_string()),
            Err(p) => Err(format!("panic: {}", panic_text(&p))),
        }
    }
}

pub fn decode_response(resp: &Response, _contract: &str) -> Accepted {
    let mut xfers = Vec::new();
    let mut foreign = Vec::new();
    let mut has_reply = false;
    for sm in &resp.messages {
        if sm.reply_on != cosmwasm_std::ReplyOn::Never {
            has_reply = true;
        }
        match &sm.msg {
            CosmosMsg::Bank(BankMsg::Send { to_address, amount }) => {
                if amount.is_empty() {
                    foreign.push("bank send without coins".to_string());
                }
                for c in amount {
                    xfers.push(Xfer {
                        mech: Mech::Bank,
                        from: _contract.to_string(),
                        to: to_address.clone(),
                        denom: c.denom.clone(),
                        amount: c.amount.u128(),
                        admin: String::new(),
                        ncoins: amount.len(),
                    });
                }
            }
            CosmosMsg::Stargate { type_url, value } => {
                if type_url == "/provenance.marker.v1.MsgTransferRequest" {
                    match MsgTransferRequest::decode(value.as_slice()) {
                        Ok(t) => match &t.amount {
                            Some(c) => match c.amount.parse::<u128>() {
                                Ok(a) => xfers.push(Xfer {
                                    mech: Mech::Marker,
                                    from: t.from_address.clone(),
                                    to: t.to_address.clone(),
                                    denom: c.denom.clone(),
                                    amount: a,
                                    admin: t.administrator.clone(),
                                    ncoins: 1,
                                }),
                                Err(_) => foreign.push("marker transfer: bad amount".to_string()),
                            },
                            None => foreign.push("marker transfer without amount".to_string()),
                        },
                        Err(e) => foreign.push(format!("marker transfer undecodable: {}", e)),
                    }
                } else {
                    foreign.push(format!("stargate {}", type_url));
                }
            }
            other => foreign.push(format!("{:?}", other)),
        }
    }
    Accepted {
        xfers,
        foreign_msgs: foreign,
        attrs: resp
            .attributes
            .iter()
            .map(|a| (a.key.clone(), a.value.clone()))
            .collect(),
        has_data: resp.data.is_some(),
        has_events: !resp.events.is_empty(),
        has_reply,
    }
}
