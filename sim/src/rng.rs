//! Seeded PRNG: splitmix64 for seed derivation, xoshiro256** for streams.
//! One integer (VERIF_SEED) decides everything; no other entropy source is used anywhere.

#[inline]
pub fn splitmix64(state: &mut u64) -> u64 {
    *state = state.wrapping_add(0x9E37_79B9_7F4A_7C15);
    let mut z = *state;
    z = (z ^ (z >> 30)).wrapping_mul(0xBF58_476D_1CE4_E5B9);
    z = (z ^ (z >> 27)).wrapping_mul(0x94D0_49BB_1331_11EB);
    z ^ (z >> 31)
}

/// Derive an independent seed from (base, index, stream tag).
pub fn derive(base: u64, index: u64, tag: u64) -> u64 {
    let mut s = base ^ 0xA076_1D64_78BD_642F;
    let a = splitmix64(&mut s);
    let mut s2 = a ^ index.wrapping_mul(0xE703_7ED1_A0B4_28DB);
    let b = splitmix64(&mut s2);
    let mut s3 = b ^ tag.wrapping_mul(0x8EBC_6AF0_9C88_C6E3);
    splitmix64(&mut s3)
}

#[derive(Clone, Debug)]
pub struct Rng {
    s: [u64; 4],
}

impl Rng {
    pub fn new(seed: u64) -> Rng {
        let mut sm = seed;
        let s = [
            splitmix64(&mut sm),
            splitmix64(&mut sm),
            splitmix64(&mut sm),
            splitmix64(&mut sm),
        ];
        Rng { s }
    }
    #[inline]
    pub fn next(&mut self) -> u64 {
        let result = self.s[1].wrapping_mul(5).rotate_left(7).wrapping_mul(9);
        let t = self.s[1] << 17;
        self.s[2] ^= self.s[0];
        self.s[3] ^= self.s[1];
        self.s[1] ^= self.s[2];
        self.s[0] ^= self.s[3];
        self.s[2] ^= t;
        self.s[3] = self.s[3].rotate_left(45);
        result
    }
    /// uniform in 0..n (n > 0)
    #[inline]
    pub fn below(&mut self, n: u64) -> u64 {
        if n == 0 {
            // degenerate request from a generator fed with absurd (but accepted) configurations
            self.next();
            return 0;
        }
        // multiply-shift; bias is irrelevant here
        ((self.next() as u128 * n as u128) >> 64) as u64
    }
    #[inline]
    pub fn range(&mut self, lo: u64, hi_incl: u64) -> u64 {
        if hi_incl <= lo {
            self.next();
            return lo;
        }
        lo + self.below((hi_incl - lo).saturating_add(1))
    }
    #[inline]
    pub fn chance(&mut self, p: f64) -> bool {
        ((self.next() >> 11) as f64 / (1u64 << 53) as f64) < p
    }
    pub fn pick<'a, T>(&mut self, v: &'a [T]) -> &'a T {
        &v[self.below(v.len() as u64) as usize]
    }
    pub fn pick_weighted(&mut self, w: &[u32]) -> usize {
        let total: u64 = w.iter().map(|x| *x as u64).sum();
        if total == 0 {
            return 0;
        }
        let mut x = self.below(total);
        for (i, wi) in w.iter().enumerate() {
            if x < *wi as u64 {
                return i;
            }
            x -= *wi as u64;
        }
        w.len() - 1
    }
    pub fn shuffle<T>(&mut self, v: &mut [T]) {
        for i in (1..v.len()).rev() {
            let j = self.below(i as u64 + 1) as usize;
            v.swap(i, j);
        }
    }
    /// geometric number of failures before success, capped
    pub fn geometric(&mut self, p: f64, cap: u64) -> u64 {
        let mut n = 0;
        while n < cap && !self.chance(p) {
            n += 1;
        }
        n
    }
    pub fn fork(&mut self, tag: u64) -> Rng {
        let a = self.next();
        Rng::new(a ^ tag.wrapping_mul(0x9E37_79B9_7F4A_7C15))
    }
    pub fn uuid(&mut self) -> String {
        let mut a = self.next();
        let mut b = self.next();
        // now and then a UUID with a remarkable shape (all zero, all ones, mostly zero)
        match a % 211 {
            0 => {
                a = 0;
                b = 0;
            }
            1 => {
                a = u64::MAX;
                b = u64::MAX;
            }
            2 => a = 0,
            _ => {}
        }
        let h = format!("{:016x}{:016x}", a, b);
        format!(
            "{}-{}-{}-{}-{}",
            &h[0..8],
            &h[8..12],
            &h[12..16],
            &h[16..20],
            &h[20..32]
        )
    }
}

/// Deterministic 64-bit hash (FNV-1a) used for coverage fingerprints and event logs.
#[derive(Clone, Copy)]
pub struct Fnv(pub u64);
impl Fnv {
    pub fn new() -> Fnv {
        Fnv(0xcbf2_9ce4_8422_2325)
    }
    #[inline]
    pub fn bytes(&mut self, b: &[u8]) -> &mut Self {
        for x in b {
            self.0 ^= *x as u64;
            self.0 = self.0.wrapping_mul(0x0000_0100_0000_01B3);
        }
        self
    }
    #[inline]
    pub fn str(&mut self, s: &str) -> &mut Self {
        self.bytes(s.as_bytes());
        self.bytes(&[0xff])
    }
    #[inline]
    pub fn u64(&mut self, v: u64) -> &mut Self {
        self.bytes(&v.to_le_bytes())
    }
    #[inline]
    pub fn u128(&mut self, v: u128) -> &mut Self {
        self.bytes(&v.to_le_bytes())
    }
    pub fn finish(&self) -> u64 {
        // final avalanche
        let mut s = self.0;
        splitmix64(&mut s)
    }
}
