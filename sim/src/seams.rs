//! The three seams the contract already takes as trait objects: Storage, Api, Querier.
//! All are stubs owned by the simulator; the contract code behind them is real.

use cosmwasm_std::{
    from_slice, to_binary, Addr, Api, CanonicalAddr, ContractResult, Empty, Order, Querier,
    QuerierResult, QueryRequest, Record, RecoverPubkeyError, StdError, StdResult, Storage,
    SystemError, SystemResult, VerificationError,
};
use prost::Message;
use provwasm_std::shim::Any;
use provwasm_std::types::cosmos::auth::v1beta1::BaseAccount;
use provwasm_std::types::provenance::attribute::v1::{
    Attribute, QueryAttributesRequest, QueryAttributesResponse,
};
use provwasm_std::types::provenance::marker::v1::{
    MarkerAccount, QueryMarkerRequest, QueryMarkerResponse,
};
use std::cell::{Cell, RefCell};
use std::collections::BTreeMap;

/// Panic payload used for injected aborts (gas exhaustion at a storage access).
pub struct InjectedAbort;

// ---------------------------------------------------------------- storage

#[derive(Clone, Default, Debug)]
pub struct SimStorage {
    pub data: BTreeMap<Vec<u8>, Vec<u8>>,
    pub ops: Cell<u64>,
    /// abort (panic with `InjectedAbort`) when the op counter reaches this value
    pub abort_at: Cell<Option<u64>>,
    pub writes: Cell<u64>,
}

impl SimStorage {
    pub fn new() -> Self {
        Self::default()
    }
    #[inline]
    fn tick(&self) {
        let n = self.ops.get() + 1;
        self.ops.set(n);
        if let Some(k) = self.abort_at.get() {
            if n == k {
                self.abort_at.set(None);
                std::panic::panic_any(InjectedAbort);
            }
        }
    }
    pub fn reset_counters(&self) {
        self.ops.set(0);
        self.writes.set(0);
        self.abort_at.set(None);
    }
    /// serialise the whole store (restart fault: only these bytes survive)
    pub fn dump(&self) -> Vec<u8> {
        let mut out = Vec::new();
        for (k, v) in &self.data {
            out.extend_from_slice(&(k.len() as u32).to_le_bytes());
            out.extend_from_slice(k);
            out.extend_from_slice(&(v.len() as u32).to_le_bytes());
            out.extend_from_slice(v);
        }
        out
    }
    pub fn restore(bytes: &[u8]) -> SimStorage {
        let mut s = SimStorage::new();
        let mut i = 0usize;
        while i < bytes.len() {
            let kl = u32::from_le_bytes(bytes[i..i + 4].try_into().unwrap()) as usize;
            i += 4;
            let k = bytes[i..i + kl].to_vec();
            i += kl;
            let vl = u32::from_le_bytes(bytes[i..i + 4].try_into().unwrap()) as usize;
            i += 4;
            let v = bytes[i..i + vl].to_vec();
            i += vl;
            s.data.insert(k, v);
        }
        s
    }
}

impl Storage for SimStorage {
    fn get(&self, key: &[u8]) -> Option<Vec<u8>> {
        self.tick();
        self.data.get(key).cloned()
    }
    fn range<'a>(
        &'a self,
        start: Option<&[u8]>,
        end: Option<&[u8]>,
        order: Order,
    ) -> Box<dyn Iterator<Item = Record> + 'a> {
        self.tick();
        use std::ops::Bound;
        let lo = match start {
            Some(s) => Bound::Included(s.to_vec()),
            None => Bound::Unbounded,
        };
        let hi = match end {
            Some(e) => Bound::Excluded(e.to_vec()),
            None => Bound::Unbounded,
        };
        if let (Bound::Included(a), Bound::Excluded(b)) = (&lo, &hi) {
            if a > b {
                return Box::new(std::iter::empty());
            }
        }
        let it = self
            .data
            .range((lo, hi))
            .map(|(k, v)| (k.clone(), v.clone()));
        match order {
            Order::Ascending => Box::new(it),
            Order::Descending => Box::new(it.rev()),
        }
    }
    fn set(&mut self, key: &[u8], value: &[u8]) {
        self.tick();
        self.writes.set(self.writes.get() + 1);
        if value.is_empty() {
            panic!("empty value written to storage");
        }
        self.data.insert(key.to_vec(), value.to_vec());
    }
    fn remove(&mut self, key: &[u8]) {
        self.tick();
        self.writes.set(self.writes.get() + 1);
        self.data.remove(key);
    }
}

// ---------------------------------------------------------------- api

#[derive(Clone, Copy, Default)]
pub struct SimApi;

/// The validity rule both the stub chain and the reference model know.
pub fn addr_ok(s: &str) -> bool {
    s.len() >= 3
        && s.len() <= 64
        && s.bytes()
            .all(|b| b.is_ascii_lowercase() || b.is_ascii_digit() || b == b'_')
}

impl Api for SimApi {
    fn addr_validate(&self, human: &str) -> StdResult<Addr> {
        if addr_ok(human) {
            Ok(Addr::unchecked(human))
        } else {
            Err(StdError::generic_err("invalid address"))
        }
    }
    fn addr_canonicalize(&self, human: &str) -> StdResult<CanonicalAddr> {
        Ok(CanonicalAddr::from(human.as_bytes()))
    }
    fn addr_humanize(&self, c: &CanonicalAddr) -> StdResult<Addr> {
        Ok(Addr::unchecked(
            String::from_utf8_lossy(c.as_slice()).to_string(),
        ))
    }
    fn secp256k1_verify(&self, _: &[u8], _: &[u8], _: &[u8]) -> Result<bool, VerificationError> {
        Err(VerificationError::GenericErr)
    }
    fn secp256k1_recover_pubkey(
        &self,
        _: &[u8],
        _: &[u8],
        _: u8,
    ) -> Result<Vec<u8>, RecoverPubkeyError> {
        Err(RecoverPubkeyError::UnknownErr { error_code: 0 })
    }
    fn ed25519_verify(&self, _: &[u8], _: &[u8], _: &[u8]) -> Result<bool, VerificationError> {
        Err(VerificationError::GenericErr)
    }
    fn ed25519_batch_verify(
        &self,
        _: &[&[u8]],
        _: &[&[u8]],
        _: &[&[u8]],
    ) -> Result<bool, VerificationError> {
        Err(VerificationError::GenericErr)
    }
    fn debug(&self, _: &str) {}
}

// ---------------------------------------------------------------- querier

/// marker table entry: 0 = no marker, 1 = unrestricted ("coin") marker, 2 = restricted marker
pub type MarkerKind = u8;
pub const MK_NONE: MarkerKind = 0;
pub const MK_COIN: MarkerKind = 1;
pub const MK_RESTRICTED: MarkerKind = 2;

#[derive(Clone, Debug, PartialEq)]
pub enum Served {
    /// marker query for `denom`; `restricted` is what the contract was told (false also when the query failed)
    Marker {
        denom: String,
        restricted: bool,
        failed: bool,
    },
    Attrs {
        account: String,
        names: Vec<String>,
        failed: bool,
    },
    Other {
        path: String,
    },
}

#[derive(Clone, Copy, Debug, PartialEq)]
pub enum QueryFaultKind {
    /// SystemResult::Err
    System,
    /// ContractResult::Err
    Contract,
}

#[derive(Clone, Default)]
pub struct SimQuerier {
    pub markers: BTreeMap<String, MarkerKind>,
    pub marker_required_attrs: BTreeMap<String, Vec<String>>,
    pub marker_status: BTreeMap<String, i32>,
    pub attrs: BTreeMap<String, Vec<String>>,
    pub served: RefCell<Vec<Served>>,
    pub nqueries: Cell<u32>,
    /// fail the n-th (0-based) query of the current transaction
    pub fail_nth: Cell<Option<(u32, QueryFaultKind)>>,
    pub faults_fired: Cell<u32>,
}

impl SimQuerier {
    pub fn begin_tx(&self) {
        self.served.borrow_mut().clear();
        self.nqueries.set(0);
        self.fail_nth.set(None);
    }
    pub fn take_served(&self) -> Vec<Served> {
        std::mem::take(&mut *self.served.borrow_mut())
    }
    fn fault_now(&self) -> Option<QueryFaultKind> {
        let n = self.nqueries.get();
        self.nqueries.set(n + 1);
        match self.fail_nth.get() {
            Some((k, kind)) if k == n => {
                self.faults_fired.set(self.faults_fired.get() + 1);
                Some(kind)
            }
            _ => None,
        }
    }
}

fn fault_result(kind: QueryFaultKind) -> QuerierResult {
    match kind {
        QueryFaultKind::System => SystemResult::Err(SystemError::Unknown {}),
        QueryFaultKind::Contract => {
            SystemResult::Ok(ContractResult::Err("injected query failure".into()))
        }
    }
}

impl Querier for SimQuerier {
    fn raw_query(&self, bin: &[u8]) -> QuerierResult {
        let req: QueryRequest<Empty> = match from_slice(bin) {
            Ok(v) => v,
            Err(e) => {
                return SystemResult::Err(SystemError::InvalidRequest {
                    error: e.to_string(),
                    request: bin.into(),
                })
            }
        };
        match req {
            QueryRequest::Stargate { path, data } => match path.as_str() {
                "/provenance.marker.v1.Query/Marker" => {
                    let r = match QueryMarkerRequest::decode(data.as_slice()) {
                        Ok(r) => r,
                        Err(e) => {
                            return SystemResult::Err(SystemError::InvalidRequest {
                                error: e.to_string(),
                                request: bin.into(),
                            })
                        }
                    };
                    if let Some(kind) = self.fault_now() {
                        self.served.borrow_mut().push(Served::Marker {
                            denom: r.id.clone(),
                            restricted: false,
                            failed: true,
                        });
                        return fault_result(kind);
                    }
                    let t = self.markers.get(&r.id).copied().unwrap_or(MK_NONE);
                    self.served.borrow_mut().push(Served::Marker {
                        denom: r.id.clone(),
                        restricted: t == MK_RESTRICTED,
                        failed: false,
                    });
                    if t == MK_NONE {
                        return SystemResult::Ok(ContractResult::Err(format!(
                            "marker {} not found",
                            r.id
                        )));
                    }
                    let m = MarkerAccount {
                        base_account: Some(BaseAccount {
                            address: format!("marker_{}", r.id),
                            pub_key: None,
                            account_number: 1,
                            sequence: 0,
                        }),
                        manager: "".into(),
                        access_control: vec![],
                        status: self.marker_status.get(&r.id).copied().unwrap_or(3),
                        denom: r.id.clone(),
                        supply: "0".into(),
                        marker_type: t as i32,
                        supply_fixed: false,
                        allow_governance_control: false,
                        allow_forced_transfer: false,
                        required_attributes: self.marker_required_attrs.get(&r.id).cloned().unwrap_or_default(),
                    };
                    let resp = QueryMarkerResponse {
                        marker: Some(Any {
                            type_url: "/provenance.marker.v1.MarkerAccount".into(),
                            value: m.encode_to_vec(),
                        }),
                    };
                    SystemResult::Ok(ContractResult::Ok(to_binary(&resp).unwrap()))
                }
                "/provenance.attribute.v1.Query/Attributes" => {
                    let r = match QueryAttributesRequest::decode(data.as_slice()) {
                        Ok(r) => r,
                        Err(e) => {
                            return SystemResult::Err(SystemError::InvalidRequest {
                                error: e.to_string(),
                                request: bin.into(),
                            })
                        }
                    };
                    if let Some(kind) = self.fault_now() {
                        self.served.borrow_mut().push(Served::Attrs {
                            account: r.account.clone(),
                            names: vec![],
                            failed: true,
                        });
                        return fault_result(kind);
                    }
                    let names = self.attrs.get(&r.account).cloned().unwrap_or_default();
                    self.served.borrow_mut().push(Served::Attrs {
                        account: r.account.clone(),
                        names: names.clone(),
                        failed: false,
                    });
                    let resp = QueryAttributesResponse {
                        account: r.account.clone(),
                        attributes: names
                            .into_iter()
                            .map(|n| Attribute {
                                name: n,
                                value: vec![],
                                attribute_type: 1,
                                address: r.account.clone(),
                            })
                            .collect(),
                        pagination: None,
                    };
                    SystemResult::Ok(ContractResult::Ok(to_binary(&resp).unwrap()))
                }
                _ => {
                    self.served.borrow_mut().push(Served::Other { path: path.clone() });
                    SystemResult::Err(SystemError::UnsupportedRequest { kind: path })
                }
            },
            _ => {
                self.served.borrow_mut().push(Served::Other {
                    path: "non-stargate".into(),
                });
                SystemResult::Err(SystemError::UnsupportedRequest {
                    kind: "non-stargate".into(),
                })
            }
        }
    }
}
