//! Batch search over seeds, minimisation, replay files, known findings, evidence.

use crate::gen::{run_one, Profile};
use crate::sim::{enabled_only, Sim};
use crate::types::*;
use serde_json::{json, Value};
use std::collections::BTreeMap;
use std::sync::atomic::{AtomicBool, AtomicU64, Ordering};
use std::sync::{Arc, Mutex};
use std::time::Instant;

pub struct CheckOpts {
    pub prop: String,
    pub tier: String,
    pub seed: u64,
    pub runs: u64,
    pub jobs: usize,
    pub evidence: String,
    pub known: String,
    pub replay_dir: String,
    pub wall_cap_s: f64,
    pub profile: Option<String>,
}

pub fn replay_steps(world: &WorldSpec, steps: &[Step], prop: &str) -> Option<Violation> {
    let mut sim = Sim::new(world, enabled_only(prop));
    if let Some(v) = sim.take_violation() {
        return Some(v);
    }
    if !sim.instantiated {
        return None;
    }
    for s in steps {
        let (_, v) = sim.apply(s);
        if v.is_some() {
            return v;
        }
    }
    None
}

fn same_class(a: &Violation, b: &Violation) -> bool {
    a.oracle == b.oracle && a.kind == b.kind
}

/// ddmin over the delivered steps, then one-by-one removal, then fault annotations and world trimming.
pub fn minimise(world: &WorldSpec, steps: &[Step], prop: &str, target: &Violation) -> (WorldSpec, Vec<Step>, Violation) {
    let fails = |w: &WorldSpec, s: &[Step]| -> Option<Violation> {
        replay_steps(w, s, prop).filter(|v| same_class(v, target))
    };
    let mut cur: Vec<Step> = steps.to_vec();
    let mut world = world.clone();
    let mut last = match fails(&world, &cur) {
        Some(v) => v,
        None => return (world, cur, target.clone()),
    };
    // cut everything after the failing step
    if last.step < cur.len() {
        cur.truncate(last.step);
    }
    let mut n = 2usize;
    while cur.len() >= 2 {
        let chunk = (cur.len() + n - 1) / n;
        let mut reduced = false;
        let mut i = 0;
        while i < cur.len() {
            let mut cand: Vec<Step> = cur[..i].to_vec();
            cand.extend_from_slice(&cur[(i + chunk).min(cur.len())..]);
            if !cand.is_empty() || true {
                if let Some(v) = fails(&world, &cand) {
                    cur = cand;
                    last = v;
                    n = n.saturating_sub(1).max(2);
                    reduced = true;
                    break;
                }
            }
            i += chunk;
        }
        if !reduced {
            if chunk == 1 {
                break;
            }
            n = (n * 2).min(cur.len());
        }
    }
    // drop fault annotations
    for i in 0..cur.len() {
        if let Step::Exec { sender, funds, msg, faults } = &cur[i] {
            if faults.any() {
                let mut cand = cur.clone();
                cand[i] = Step::Exec { sender: sender.clone(), funds: funds.clone(), msg: msg.clone(), faults: Default::default() };
                if let Some(v) = fails(&world, &cand) {
                    cur = cand;
                    last = v;
                }
            }
        }
    }
    // trim the world: seeds, attributes, marker entries that do not matter
    if !world.seeds.is_empty() {
        let mut w2 = world.clone();
        w2.seeds.clear();
        if let Some(v) = fails(&w2, &cur) {
            world = w2;
            last = v;
        }
    }
    for d in world.markers.keys().cloned().collect::<Vec<_>>() {
        let mut w2 = world.clone();
        w2.markers.remove(&d);
        if let Some(v) = fails(&w2, &cur) {
            world = w2;
            last = v;
        }
    }
    (world, cur, last)
}

#[derive(Clone, Debug)]
pub struct Known {
    pub property: String,
    pub signature: String,
    pub status: String,
    pub what: String,
}

pub fn load_known(path: &str) -> Vec<Known> {
    let mut out = vec![];
    if let Ok(s) = std::fs::read_to_string(path) {
        if let Ok(v) = serde_json::from_str::<Value>(&s) {
            if let Some(a) = v.get("findings").and_then(|f| f.as_array()) {
                for e in a {
                    out.push(Known {
                        property: e["property"].as_str().unwrap_or("").to_string(),
                        signature: e["signature"].as_str().unwrap_or("").to_string(),
                        status: e["status"].as_str().unwrap_or("").to_string(),
                        what: e["what"].as_str().unwrap_or("").to_string(),
                    });
                }
            }
        }
    }
    out
}

struct Found {
    run: u64,
    world: WorldSpec,
    steps: Vec<Step>,
    violation: Violation,
}

pub fn check(o: &CheckOpts) -> i32 {
    let t0 = Instant::now();
    let prof = match &o.profile {
        Some(p) => Profile::for_property(p),
        None => Profile::for_property(&o.prop),
    };
    let enabled = enabled_only(&o.prop);
    let next = Arc::new(AtomicU64::new(0));
    let stop_after = Arc::new(AtomicU64::new(u64::MAX));
    let capped = Arc::new(AtomicBool::new(false));
    let found: Arc<Mutex<Vec<Found>>> = Arc::new(Mutex::new(vec![]));
    let covs: Arc<Mutex<Vec<(usize, Cov)>>> = Arc::new(Mutex::new(vec![]));
    let samples: Arc<Mutex<BTreeMap<u64, Value>>> = Arc::new(Mutex::new(BTreeMap::new()));
    let known = load_known(&o.known);
    let known_sigs: Vec<String> = known
        .iter()
        .filter(|k| k.status == "known" && k.property == o.prop)
        .map(|k| k.signature.clone())
        .collect();
    let mut handles = vec![];
    for t in 0..o.jobs {
        let next = next.clone();
        let stop_after = stop_after.clone();
        let capped = capped.clone();
        let found = found.clone();
        let covs = covs.clone();
        let samples = samples.clone();
        let prof = prof.clone();
        let prop = o.prop.clone();
        let thorough = o.tier == "thorough";
        let (seed, runs, cap) = (o.seed, o.runs, o.wall_cap_s);
        let known_sigs = known_sigs.clone();
        handles.push(std::thread::spawn(move || {
            let mut cov = Cov::new();
            loop {
                let i = next.fetch_add(1, Ordering::SeqCst);
                if i >= runs || i > stop_after.load(Ordering::SeqCst) {
                    break;
                }
                if t0.elapsed().as_secs_f64() > cap {
                    capped.store(true, Ordering::SeqCst);
                    break;
                }
                // thorough tier: every fourth run borrows another property's profile (round-robin
                // over the run index), so this property's oracles also see migrations, bulk books,
                // admin-heavy traffic ... that its own profile makes rare
                let borrowed;
                let use_prof: &Profile = if thorough && i % 4 == 3 {
                    borrowed = Profile::for_property(PROPS[((i / 4) % PROPS.len() as u64) as usize]);
                    &borrowed
                } else {
                    &prof
                };
                let out = match std::panic::catch_unwind(std::panic::AssertUnwindSafe(|| run_one(seed, i, use_prof, enabled, i < 3))) {
                    Ok(o) => o,
                    Err(_) => {
                        eprintln!(
                            "HARNESS-ERROR: the simulator itself panicked in run {} of seed {} (property {}); re-run with DSIM_PANIC=1 --jobs 1 to see where",
                            i, seed, prop
                        );
                        std::panic::resume_unwind(Box::new("harness"));
                    }
                };
                cov.merge(&out.cov);
                if i < 3 {
                    for s in out.samples {
                        samples.lock().unwrap().insert(i, s);
                    }
                }
                if let Some(v) = out.violation {
                    let _ = &prop;
                    if !known_sigs.contains(&v.signature()) {
                        // an unlisted violation ends the search at this run index
                        let mut cur = stop_after.load(Ordering::SeqCst);
                        while i < cur {
                            match stop_after.compare_exchange(cur, i, Ordering::SeqCst, Ordering::SeqCst) {
                                Ok(_) => break,
                                Err(c) => cur = c,
                            }
                        }
                    }
                    found.lock().unwrap().push(Found { run: i, world: out.world, steps: out.steps, violation: v });
                }
            }
            covs.lock().unwrap().push((t, cov));
        }));
    }
    let mut harness_error = false;
    for h in handles {
        if h.join().is_err() {
            harness_error = true;
        }
    }
    if harness_error {
        eprintln!("HARNESS-ERROR: a worker panicked (this is a defect of the checking machinery, not a verdict)");
        return 2;
    }
    let mut cov = Cov::new();
    let mut cv = covs.lock().unwrap();
    cv.sort_by_key(|x| x.0);
    for (_, c) in cv.iter() {
        cov.merge(c);
    }
    let mut found = std::mem::take(&mut *found.lock().unwrap());
    found.sort_by_key(|f| f.run);

    let mut exit = 0;
    let mut nviol = 0;
    let mut reported_known: Vec<String> = vec![];
    let mut violation_lines: Vec<String> = vec![];
    let mut first_unknown_done = false;
    for f in &found {
        let sig = f.violation.signature();
        if known_sigs.contains(&sig) {
            if !reported_known.contains(&sig) {
                reported_known.push(sig.clone());
                let what = known.iter().find(|k| k.signature == sig && k.property == o.prop).map(|k| k.what.clone()).unwrap_or_default();
                println!("KNOWN-FINDING: property={} {} [{}]", o.prop, what, sig);
            }
            continue;
        }
        if first_unknown_done {
            continue;
        }
        first_unknown_done = true;
        nviol += 1;
        exit = 1;
        let (w, steps, v) = minimise(&f.world, &f.steps, &o.prop, &f.violation);
        let rf = ReplayFile {
            property: o.prop.clone(),
            seed: o.seed,
            run: f.run,
            profile: prof.name.clone(),
            world: w,
            steps,
            violation: v.clone(),
            minimised_from: f.steps.len(),
        };
        let _ = std::fs::create_dir_all(&o.replay_dir);
        let path = format!("{}/{}-{}-{}.json", o.replay_dir, o.prop, o.seed, f.run);
        std::fs::write(&path, serde_json::to_string_pretty(&rf).unwrap()).ok();
        // replay the minimised file in a fresh process before reporting it
        let confirmed = std::env::current_exe()
            .ok()
            .and_then(|exe| std::process::Command::new(exe).arg("replay").arg(&path).arg("--quiet").output().ok())
            .map(|o| o.status.code() == Some(1))
            .unwrap_or(false);
        println!(
            "VIOLATION property={} replay={} oracle={} step={} steps={} (from {}) confirmed_in_fresh_process={}",
            o.prop,
            path,
            v.signature(),
            v.step,
            rf.steps.len(),
            f.steps.len(),
            confirmed
        );
        println!("  detail: {}", v.detail);
        violation_lines.push(format!("{} :: {}", v.signature(), v.detail));
    }

    let wall = t0.elapsed().as_secs_f64();
    let runs_done = cov.runs;
    let pi = prop_index(&o.prop).unwrap_or(0);
    let pc = &cov.props[pi];
    let samples_v: Vec<Value> = samples.lock().unwrap().values().cloned().collect();
    let ev = json!({
        "property_id": o.prop,
        "tier": o.tier,
        "seed": o.seed,
        "level": "exploration",
        "wall_s": (wall * 100.0).round() / 100.0,
        "violations": nviol,
        "coverage": {
            "evaluations": pc.evaluations,
            "distinct_nontrivial": pc.distinct.len(),
            "rule": rule_text(&o.prop),
            "samples": if samples_v.is_empty() { vec![json!({"note": "no history delivered"})] } else { samples_v },
            "technique": "deterministic simulation with fault injection: seeded multi-party histories against the real contract entry points behind simulated Storage/Api/Querier/bank seams",
            "profile": prof.name,
            "simulated_runs": runs_done,
            "runs_requested": o.runs,
            "wall_cap_hit": capped.load(Ordering::SeqCst),
            "runs_per_hour": if wall > 0.0 { (runs_done as f64 / wall * 3600.0).round() } else { 0.0 },
            "delivered_steps": cov.steps,
            "simulated_blocks": cov.blocks,
            "simulated_time_s": cov.blocks * 5,
            "instantiate_cases": cov.instantiate_cases,
            "history_steps": cov.steps,
            "requests_by_kind_delivered_accepted_refused": cov.kinds,
            "model_refusal_reasons": cov.refusal_reasons,
            "model_abstained": cov.dontcare,
            "model_abstained_share": if cov.l2_decisions > 0 { cov.dontcare.values().sum::<u64>() as f64 / cov.l2_decisions as f64 } else { 0.0 },
            "refusals_not_demanded_by_any_statement": cov.soft_refusals.iter().take(40).collect::<BTreeMap<_, _>>(),
            "fault_kinds_fired": cov.faults,
            "rare_condition_probes": cov.probes,
            "case_cells_hit": cov.cells.len(),
            "case_cells": cells_for(&o.prop, &cov.cells),
            "distinct_abstract_states": cov.states.len(),
            "distinct_transitions": cov.transitions.len(),
            "state_measure": "hash of the multiset of order shapes (side, class, remaining bucket, lot alignment, fee state) plus fee configuration; transition = (request kind, state before, state after)",
            "oracle_evaluations_all_properties": PROPS.iter().enumerate().map(|(i, p)| (p.to_string(), cov.props[i].evaluations)).collect::<BTreeMap<_, _>>(),
            "known_findings_seen": reported_known,
            "violations_reported": violation_lines,
            "components": {
                "real_code": "contract.rs ask_order.rs bid_order.rs contract_info.rs execute/modify_contract.rs msg.rs util.rs version_info.rs common.rs from /repo's working tree via instantiate/execute/query/migrate; cw-storage-plus, cosmwasm-std types, rust_decimal, semver, uuid, prost, provwasm-std message/query types",
                "stubs": "SimStorage (KV store), SimApi (address validation), SimQuerier (marker + attribute modules), SimChain (bank + marker message execution, transaction atomicity, mempool, blocks)",
                "not_modelled": "wasm VM, gas metering (only as injected abort), bech32, authz grants for marker pulls, bank send restrictions"
            }
        },
        "assumptions": [
            "native build of the contract (not wasm32); overflow checks on",
            "amounts and prices inside the numeric domain of DESIGN section 3 (96-bit decimals, fee*quote < 1e27); the model abstains outside it",
            "old-version state (version strings, event-log bids, legacy ids) is synthesised by the harness per the pinned layouts",
            "a clean batch is evidence from sampled histories, not a proof"
        ]
    });
    if let Some(dir) = std::path::Path::new(&o.evidence).parent() {
        let _ = std::fs::create_dir_all(dir);
    }
    if std::fs::write(&o.evidence, serde_json::to_string_pretty(&ev).unwrap()).is_err() {
        eprintln!("HARNESS-ERROR: cannot write evidence file {}", o.evidence);
        return 2;
    }
    println!(
        "{} {} seed={} runs={} steps={} evaluations={} distinct={} wall={:.1}s violations={} known={}",
        o.prop,
        o.tier,
        o.seed,
        runs_done,
        cov.steps,
        pc.evaluations,
        pc.distinct.len(),
        wall,
        nviol,
        reported_known.len()
    );
    exit
}

/// the coverage cells that belong to the property being checked (request kinds it judges)
fn cells_for(prop: &str, cells: &BTreeMap<String, u64>) -> BTreeMap<String, u64> {
    let kinds: &[&str] = match prop {
        "C02" | "C03" => &["execute_match"],
        "C04" => &["cancel_ask", "cancel_bid", "expire_ask", "expire_bid", "reject_ask", "reject_bid"],
        "C07" => &["create_ask", "create_bid"],
        "C08" => &["approve_ask", "reject_ask", "expire_ask", "cancel_ask"],
        "C09" => &["create_bid", "execute_match", "reject_bid", "cancel_bid", "expire_bid"],
        "C12" => &["modify_contract"],
        _ => &[],
    };
    cells
        .iter()
        .filter(|(k, _)| kinds.iter().any(|x| k.starts_with(&format!("{}:", x))))
        .map(|(k, v)| (k.clone(), *v))
        .collect()
}

pub fn rule_text(p: &str) -> &'static str {
    match p {
        "C01" => "one evaluation = I-solv/I-step/I-cons/I-fund after one accepted transaction of a generated multi-party history; distinct = distinct (request kind, owed-per-denomination vector); non-trivial = the transaction moved funds",
        "C02" => "one evaluation = net (account, denomination) deltas of one accepted match compared with the statement; distinct = distinct (case tags: class, partial/complete per side, price side, fee cells, later fill) x amounts",
        "C03" => "one evaluation = accept/refuse decision of one delivered match request judged both ways; distinct = distinct (decision, reason or case tags, price string, size, remainders, limit prices); abstentions are not counted as non-trivial",
        "C04" => "one evaluation = one accepted cancel/expire/reject judged on payouts, remainders and removal, or one refused partial size judged; distinct = distinct (kind, case tags, amounts)",
        "C05" => "one evaluation = one (request kind, sender) cell of the authorisation matrix issued on a fork of a visited state; distinct = distinct (kind, role set of the sender, owner-of-order flag, outcome)",
        "C06" => "one evaluation = one exit (owner cancel or executor expire) attempted on a fork for one open order of one visited state; distinct = distinct (request, order shape, remainder, lot alignment, increment, legacy id)",
        "C07" => "one evaluation = accept/refuse decision of one delivered create request judged both ways plus stored order and escrow on accept; distinct = distinct (decision, reason or tags, precision, increment, price, size, fee)",
        "C08" => "one evaluation = one approve decision or one 'recorded approver amount == remaining size' check of an approved ask after a step; non-trivial = the step named that ask",
        "C09" => "one evaluation = one fee judged exactly (creation fee, ask fee, fill fee, refund, return) or one pro-rata state invariant of an open fee-bearing bid; non-trivial = fee-bearing case / bid named by the step",
        "C10" => "one evaluation = one emitted message judged against the marker answers served; distinct = distinct (request kind, mechanism, denomination role, marker table of all traded denominations, payout/pull-in)",
        "C11" => "one evaluation = complete book and storage diff before/after one accepted step (I-frame, I-mono, I-wf, model book); non-trivial = the book held at least two orders",
        "C12" => "one evaluation = one ModifyContract decision / installed configuration / frozen-rate relation after a step; distinct = distinct (decision, reason, book state, installed configuration)",
        "C13" => "one evaluation = one instantiate message (plain seeded input generation; no schedule involved) judged both ways with stored records; distinct = distinct (decision, reason, message shape, precision/increment, fee strings). The integrality consequence is exercised by the histories that follow accepted configurations",
        "C14" => "one evaluation = one migrate call inside a live history: decision, whole-storage comparison, overrides, version stamp, second run; distinct = distinct (version band, message, outcome, book size class)",
        "C15" => "one evaluation = one bid rewritten to the event-log format and compared after migrate, or one continuation step compared with the never-converted twin; distinct = distinct (event count, consumed amounts, fee presence) / (request kind, outcome)",
        "C16" => "one evaluation = one query issued after a step (kind x id class) compared with raw storage, or one reported-amounts-vs-cancel comparison on a fork",
        "C17" => "one evaluation = attributes of one accepted response compared with ledger and book, followed by a comparison of the attribute-only shadow book with the real book; distinct = distinct (kind, case tags, amounts)",
        _ => "",
    }
}

pub fn replay_file(path: &str, quiet: bool) -> i32 {
    let s = match std::fs::read_to_string(path) {
        Ok(s) => s,
        Err(e) => {
            eprintln!("HARNESS-ERROR: cannot read {}: {}", path, e);
            return 2;
        }
    };
    let rf: ReplayFile = match serde_json::from_str(&s) {
        Ok(r) => r,
        Err(e) => {
            eprintln!("HARNESS-ERROR: {} is not a replay file: {}", path, e);
            return 2;
        }
    };
    match replay_steps(&rf.world, &rf.steps, &rf.property) {
        Some(v) => {
            let same = v.oracle == rf.violation.oracle && v.step == rf.violation.step;
            if !quiet {
                println!("VIOLATION property={} replay={} oracle={} step={} reproduces_recorded={}", rf.property, path, v.signature(), v.step, same);
                println!("  detail: {}", v.detail);
            }
            1
        }
        None => {
            if !quiet {
                println!("replay {}: no violation of {} (recorded: {})", path, rf.property, rf.violation.signature());
            }
            0
        }
    }
}

/// print one line per run: run index and a hash of its complete event log (for determinism diffs)
pub fn determinism(prop: &str, seed: u64, runs: u64, jobs: usize) -> i32 {
    let prof = Profile::for_property(prop);
    let enabled = enabled_only(prop);
    let next = Arc::new(AtomicU64::new(0));
    let res: Arc<Mutex<BTreeMap<u64, (u64, usize, bool)>>> = Arc::new(Mutex::new(BTreeMap::new()));
    let mut hs = vec![];
    for _ in 0..jobs {
        let next = next.clone();
        let res = res.clone();
        let prof = prof.clone();
        hs.push(std::thread::spawn(move || loop {
            let i = next.fetch_add(1, Ordering::SeqCst);
            if i >= runs {
                break;
            }
            let out = run_one(seed, i, &prof, enabled, false);
            let mut h = crate::rng::Fnv::new();
            for e in &out.event_hashes {
                h.u64(*e);
            }
            h.str(&serde_json::to_string(&out.world).unwrap());
            res.lock().unwrap().insert(i, (h.finish(), out.steps.len(), out.violation.is_some()));
        }));
    }
    for h in hs {
        if h.join().is_err() {
            return 2;
        }
    }
    for (i, (h, n, v)) in res.lock().unwrap().iter() {
        println!("{} {:016x} {} {}", i, h, n, v);
    }
    0
}


/// One pass with every oracle and probe enabled under each given profile: which properties'
/// statements are contradicted by what the runs observe (cross-property view of a change).
pub fn tags(profiles: &[String], seed: u64, runs: u64, jobs: usize) -> i32 {
    use crate::sim::enabled_all;
    let mut found: BTreeMap<String, BTreeMap<String, u64>> = BTreeMap::new();
    for pname in profiles {
        let prof = Profile::for_property(pname);
        let next = Arc::new(AtomicU64::new(0));
        let res: Arc<Mutex<Vec<Violation>>> = Arc::new(Mutex::new(vec![]));
        let mut hs = vec![];
        for _ in 0..jobs {
            let next = next.clone();
            let res = res.clone();
            let prof = prof.clone();
            hs.push(std::thread::spawn(move || loop {
                let i = next.fetch_add(1, Ordering::SeqCst);
                if i >= runs {
                    break;
                }
                let out = run_one(seed, i, &prof, enabled_all(), false);
                if out.violation.is_some() {
                    let mut g = res.lock().unwrap();
                    for v in out.all_in_step {
                        g.push(v);
                    }
                }
            }));
        }
        for h in hs {
            if h.join().is_err() {
                return 2;
            }
        }
        for v in res.lock().unwrap().iter() {
            for p in &v.props {
                *found.entry(p.clone()).or_default().entry(v.oracle.clone()).or_insert(0) += 1;
            }
        }
    }
    println!("{}", serde_json::to_string(&found).unwrap());
    if found.is_empty() {
        0
    } else {
        1
    }
}
