//! The harness's own view of the stored state: mirror structures decoded from raw storage
//! bytes (not through the contract's types), used by every oracle.

use crate::seams::SimStorage;
use serde_json::Value;
use std::collections::BTreeMap;

/// storage prefixes of the two order maps: cw-storage-plus length-prefixes the namespace, and the
/// namespaces are the crate's own public constants (a renamed namespace is followed, not alarmed on)
pub fn ask_prefix() -> Vec<u8> {
    prefix_of(ats_smart_contract::ask_order::NAMESPACE_ORDER_ASK)
}
pub fn bid_prefix() -> Vec<u8> {
    prefix_of(ats_smart_contract::bid_order::NAMESPACE_ORDER_BID)
}
fn prefix_of(ns: &str) -> Vec<u8> {
    let mut v = (ns.len() as u16).to_be_bytes().to_vec();
    v.extend_from_slice(ns.as_bytes());
    v
}

#[derive(Clone, Debug, PartialEq)]
pub enum AskClass {
    Plain,
    Pending,
    Ready {
        approver: String,
        cb_denom: String,
        cb_amount: u128,
    },
}

impl AskClass {
    pub fn tag(&self) -> &'static str {
        match self {
            AskClass::Plain => "plain",
            AskClass::Pending => "pending",
            AskClass::Ready { .. } => "ready",
        }
    }
}

#[derive(Clone, Debug, PartialEq)]
pub struct AskM {
    pub id: String,
    pub owner: String,
    pub base: String,
    pub quote: String,
    pub price: String,
    pub size: u128,
    pub class: AskClass,
}

#[derive(Clone, Debug, PartialEq)]
pub struct BidM {
    pub id: String,
    pub owner: String,
    pub base_denom: String,
    pub base_amount: u128,
    pub quote_denom: String,
    pub quote_amount: u128,
    pub fee: Option<(String, u128)>,
    pub price: String,
    pub acc_base: u128,
    pub acc_quote: u128,
    pub acc_fee: u128,
    /// true when the stored entry is in the old event-log format (only transiently, around migrate)
    pub v2: bool,
}

impl BidM {
    pub fn unfilled(&self) -> u128 {
        self.base_amount.saturating_sub(self.acc_base)
    }
    pub fn unspent_quote(&self) -> u128 {
        self.quote_amount.saturating_sub(self.acc_quote)
    }
    pub fn fee_total(&self) -> u128 {
        self.fee.as_ref().map(|f| f.1).unwrap_or(0)
    }
    pub fn unspent_fee(&self) -> u128 {
        self.fee_total().saturating_sub(self.acc_fee)
    }
}

#[derive(Clone, Debug, PartialEq, Default)]
pub struct Book {
    /// keyed by the id part of the storage key
    pub asks: BTreeMap<String, AskM>,
    pub bids: BTreeMap<String, BidM>,
}

#[derive(Clone, Debug, PartialEq)]
pub struct FeeCfg {
    pub account: String,
    pub rate: String,
}

#[derive(Clone, Debug, PartialEq)]
pub struct Cfg {
    pub name: String,
    pub bind_name: String,
    pub base_denom: String,
    pub convertibles: Vec<String>,
    pub quotes: Vec<String>,
    pub approvers: Vec<String>,
    pub executors: Vec<String>,
    pub ask_fee: Option<FeeCfg>,
    pub bid_fee: Option<FeeCfg>,
    pub ask_attrs: Vec<String>,
    pub bid_attrs: Vec<String>,
    pub precision: u128,
    pub increment: u128,
}

#[derive(Debug)]
pub struct DecodeError(pub String);

fn s(v: &Value, k: &str) -> Result<String, DecodeError> {
    v.get(k)
        .and_then(|x| x.as_str())
        .map(|x| x.to_string())
        .ok_or_else(|| DecodeError(format!("missing string field {}", k)))
}
fn n(v: &Value, k: &str) -> Result<u128, DecodeError> {
    v.get(k)
        .and_then(|x| x.as_str())
        .and_then(|x| x.parse::<u128>().ok())
        .ok_or_else(|| DecodeError(format!("missing integer field {}", k)))
}
fn coin(v: &Value) -> Result<(String, u128), DecodeError> {
    Ok((s(v, "denom")?, n(v, "amount")?))
}
fn strs(v: &Value, k: &str) -> Result<Vec<String>, DecodeError> {
    v.get(k)
        .and_then(|x| x.as_array())
        .map(|a| {
            a.iter()
                .map(|e| e.as_str().unwrap_or("").to_string())
                .collect()
        })
        .ok_or_else(|| DecodeError(format!("missing list field {}", k)))
}

pub fn decode_ask(bytes: &[u8]) -> Result<AskM, DecodeError> {
    let v: Value = serde_json::from_slice(bytes).map_err(|e| DecodeError(e.to_string()))?;
    decode_ask_value(&v)
}

pub fn decode_ask_value(v: &Value) -> Result<AskM, DecodeError> {
    let class = match v.get("class") {
        Some(Value::String(t)) if t == "Basic" => AskClass::Plain,
        Some(Value::Object(o)) => {
            let st = o
                .get("Convertible")
                .and_then(|c| c.get("status"))
                .ok_or_else(|| DecodeError("bad class".into()))?;
            match st {
                Value::String(t) if t == "PendingIssuerApproval" => AskClass::Pending,
                Value::Object(so) => {
                    let r = so
                        .get("Ready")
                        .ok_or_else(|| DecodeError("bad status".into()))?;
                    let cb = r
                        .get("converted_base")
                        .ok_or_else(|| DecodeError("no converted_base".into()))?;
                    let (d, a) = coin(cb)?;
                    AskClass::Ready {
                        approver: s(r, "approver")?,
                        cb_denom: d,
                        cb_amount: a,
                    }
                }
                _ => return Err(DecodeError("bad status".into())),
            }
        }
        _ => return Err(DecodeError("bad class".into())),
    };
    Ok(AskM {
        id: s(v, "id")?,
        owner: s(v, "owner")?,
        base: s(v, "base")?,
        quote: s(v, "quote")?,
        price: s(v, "price")?,
        size: n(v, "size")?,
        class,
    })
}

pub fn decode_bid(bytes: &[u8]) -> Result<BidM, DecodeError> {
    let v: Value = serde_json::from_slice(bytes).map_err(|e| DecodeError(e.to_string()))?;
    decode_bid_value(&v)
}

pub fn decode_bid_value(v: &Value) -> Result<BidM, DecodeError> {
    let (bd, ba) = coin(v.get("base").ok_or_else(|| DecodeError("no base".into()))?)?;
    let (qd, qa) = coin(v.get("quote").ok_or_else(|| DecodeError("no quote".into()))?)?;
    let fee = match v.get("fee") {
        None | Some(Value::Null) => None,
        Some(f) => Some(coin(f)?),
    };
    let (acc_base, acc_quote, acc_fee, v2) = if let Some(ev) = v.get("events") {
        // old format: sums over the event log (harness-side arithmetic, independent of the contract)
        let mut b = 0u128;
        let mut q = 0u128;
        let mut f = 0u128;
        for e in ev.as_array().ok_or_else(|| DecodeError("events".into()))? {
            let act = e.get("action").ok_or_else(|| DecodeError("action".into()))?;
            let (kind, body) = act
                .as_object()
                .and_then(|o| o.iter().next())
                .ok_or_else(|| DecodeError("action shape".into()))?;
            if kind == "Fill" || kind == "Reject" {
                b += coin(body.get("base").ok_or_else(|| DecodeError("ev base".into()))?)?.1;
            }
            q += coin(body.get("quote").ok_or_else(|| DecodeError("ev quote".into()))?)?.1;
            match body.get("fee") {
                None | Some(Value::Null) => {}
                Some(fc) => f += coin(fc)?.1,
            }
        }
        (b, q, f, true)
    } else {
        (
            n(v, "accumulated_base")?,
            n(v, "accumulated_quote")?,
            n(v, "accumulated_fee")?,
            false,
        )
    };
    Ok(BidM {
        id: s(v, "id")?,
        owner: s(v, "owner")?,
        base_denom: bd,
        base_amount: ba,
        quote_denom: qd,
        quote_amount: qa,
        fee,
        price: s(v, "price")?,
        acc_base,
        acc_quote,
        acc_fee,
        v2,
    })
}

pub fn decode_cfg(bytes: &[u8]) -> Result<Cfg, DecodeError> {
    let v: Value = serde_json::from_slice(bytes).map_err(|e| DecodeError(e.to_string()))?;
    decode_cfg_value(&v)
}

pub fn decode_cfg_value(v: &Value) -> Result<Cfg, DecodeError> {
    let fee = |k: &str| -> Result<Option<FeeCfg>, DecodeError> {
        match v.get(k) {
            None | Some(Value::Null) => Ok(None),
            Some(f) => Ok(Some(FeeCfg {
                account: s(f, "account")?,
                rate: s(f, "rate")?,
            })),
        }
    };
    Ok(Cfg {
        name: s(v, "name")?,
        bind_name: s(v, "bind_name").unwrap_or_default(),
        base_denom: s(v, "base_denom")?,
        convertibles: strs(v, "convertible_base_denoms")?,
        quotes: strs(v, "supported_quote_denoms")?,
        approvers: strs(v, "approvers")?,
        executors: strs(v, "executors")?,
        ask_fee: fee("ask_fee_info")?,
        bid_fee: fee("bid_fee_info")?,
        ask_attrs: strs(v, "ask_required_attributes")?,
        bid_attrs: strs(v, "bid_required_attributes")?,
        precision: n(v, "price_precision")?,
        increment: n(v, "size_increment")?,
    })
}

pub fn ask_key(id: &str) -> Vec<u8> {
    let mut k = ask_prefix();
    k.extend_from_slice(id.as_bytes());
    k
}
pub fn bid_key(id: &str) -> Vec<u8> {
    let mut k = bid_prefix();
    k.extend_from_slice(id.as_bytes());
    k
}

#[derive(Clone, Copy, Debug, PartialEq)]
pub enum KeyClass {
    Ask,
    Bid,
    Singleton,
}

pub fn classify(key: &[u8]) -> (KeyClass, String) {
    let (ap, bp) = (ask_prefix(), bid_prefix());
    if key.starts_with(&ap) {
        (KeyClass::Ask, String::from_utf8_lossy(&key[ap.len()..]).to_string())
    } else if key.starts_with(&bp) {
        (KeyClass::Bid, String::from_utf8_lossy(&key[bp.len()..]).to_string())
    } else {
        (KeyClass::Singleton, String::from_utf8_lossy(key).to_string())
    }
}

/// Decode the complete book by a raw scan of storage.
pub fn scan_book(st: &SimStorage) -> Result<Book, DecodeError> {
    let mut b = Book::default();
    for (k, v) in st.data.iter() {
        match classify(k) {
            (KeyClass::Ask, id) => {
                b.asks.insert(id, decode_ask(v)?);
            }
            (KeyClass::Bid, id) => {
                b.bids.insert(id, decode_bid(v)?);
            }
            _ => {}
        }
    }
    Ok(b)
}

pub fn read_cfg(st: &SimStorage) -> Result<Cfg, DecodeError> {
    match st.data.get(b"contract_info".as_slice()) {
        Some(v) => decode_cfg(v),
        None => Err(DecodeError("no contract_info".into())),
    }
}

pub fn read_version(st: &SimStorage) -> Option<(String, String)> {
    let v = st.data.get(b"version_info".as_slice())?;
    let j: Value = serde_json::from_slice(v).ok()?;
    Some((
        j.get("definition")?.as_str()?.to_string(),
        j.get("version")?.as_str()?.to_string(),
    ))
}

/// What the contract owes on behalf of its open orders, per denomination (C01's right-hand side).
pub fn owed_total(book: &Book) -> BTreeMap<String, u128> {
    let mut m: BTreeMap<String, u128> = BTreeMap::new();
    for a in book.asks.values() {
        for (d, x) in owed_ask(a) {
            *m.entry(d).or_insert(0) += x;
        }
    }
    for b in book.bids.values() {
        for (d, x) in owed_bid(b) {
            *m.entry(d).or_insert(0) += x;
        }
    }
    m.retain(|_, v| *v != 0);
    m
}

pub fn owed_ask(a: &AskM) -> Vec<(String, u128)> {
    let mut v = vec![(a.base.clone(), a.size)];
    if let AskClass::Ready {
        cb_denom,
        cb_amount,
        ..
    } = &a.class
    {
        v.push((cb_denom.clone(), *cb_amount));
    }
    v
}

pub fn owed_bid(b: &BidM) -> Vec<(String, u128)> {
    vec![(b.quote_denom.clone(), b.unspent_quote() + b.unspent_fee())]
}
