//! Seeded generation: worlds, parties acting on lagged views, mempool (delay / loss /
//! duplication / reordering), fault schedule. One u64 decides a whole run.

use crate::book::Cfg;
use crate::chain::{CoinS, TxFaults};
use crate::dec::{self, Parsed};
use crate::rng::{derive, Rng};
use crate::sim::{Enabled, Sim};
use crate::types::*;
use serde_json::{json, Value};
use std::collections::BTreeMap;

#[derive(Clone, Debug)]
pub struct Profile {
    pub name: String,
    pub max_steps: usize,
    // action weights: place_ask, place_bid, approve, match, cancel, expire, reject, modify, adversary
    pub w: [u32; 9],
    pub p_convertible: f64,
    pub p_mutate: f64,
    pub p_marker_restricted: f64,
    pub p_marker_coin: f64,
    pub p_fee_ask: f64,
    pub p_fee_bid: f64,
    pub p_tie_rates: f64,
    pub p_attrs: f64,
    pub p_legacy_seed: f64,
    pub p_inst_mutate: f64,
    pub p_faulty_run: f64,
    pub p_migrate_run: f64,
    pub p_twin: f64,
    pub p_marker_flux_run: f64,
    pub p_role_overlap: f64,
    pub p_improved_price: f64,
    pub p_partial_reject: f64,
    pub p_nonlot: f64,
    pub many_orders: bool,
    pub marker_round_robin: bool,
    /// share of worlds that start with a large seeded bid book (more than 30 bids)
    pub p_bulk_book: f64,
    /// share of runs that start with a fill steered onto a (near-)tie of the pro-rata fee
    pub p_near_tie: f64,
}

impl Profile {
    pub fn base(name: &str) -> Profile {
        Profile {
            name: name.to_string(),
            max_steps: 60,
            w: [14, 14, 8, 26, 7, 5, 10, 3, 6],
            p_convertible: 0.3,
            p_mutate: 0.18,
            p_marker_restricted: 0.2,
            p_marker_coin: 0.2,
            p_fee_ask: 0.5,
            p_fee_bid: 0.5,
            p_tie_rates: 0.4,
            p_attrs: 0.2,
            p_legacy_seed: 0.15,
            p_inst_mutate: 0.0,
            p_faulty_run: 0.3,
            p_migrate_run: 0.1,
            p_twin: 0.0,
            p_marker_flux_run: 0.04,
            p_role_overlap: 0.35,
            p_improved_price: 0.5,
            p_partial_reject: 0.6,
            p_nonlot: 0.35,
            many_orders: false,
            marker_round_robin: false,
            p_bulk_book: 0.0,
            p_near_tie: 0.02,
        }
    }
    pub fn for_property(p: &str) -> Profile {
        let mut f = Profile::base(p);
        match p {
            "C01" => {
                f.p_convertible = 0.5;
                f.w = [14, 14, 10, 26, 8, 4, 14, 3, 4];
                f.p_fee_bid = 0.7;
            }
            "C02" => {
                f.w = [16, 16, 9, 36, 3, 2, 6, 2, 3];
                f.p_role_overlap = 0.5;
                f.p_fee_bid = 0.7;
                f.p_fee_ask = 0.7;
                f.p_mutate = 0.08;
            }
            "C03" => {
                f.w = [15, 15, 8, 40, 4, 2, 6, 2, 5];
                f.p_mutate = 0.3;
            }
            "C04" => {
                f.w = [14, 14, 9, 18, 12, 8, 20, 2, 4];
                f.p_fee_bid = 0.75;
                f.p_convertible = 0.45;
            }
            "C05" => {
                f.w = [14, 14, 8, 16, 6, 4, 8, 12, 14];
                f.max_steps = 30;
                f.p_role_overlap = 0.6;
            }
            "C06" => {
                f.p_bulk_book = 0.004;
                f.p_nonlot = 0.6;
                f.p_legacy_seed = 0.5;
                f.p_migrate_run = 0.2;
                f.max_steps = 40;
            }
            "C07" => {
                f.w = [30, 30, 5, 12, 5, 3, 5, 4, 6];
                f.p_mutate = 0.5;
                f.p_attrs = 0.45;
                f.p_marker_restricted = 0.3;
            }
            "C08" => {
                f.p_convertible = 0.8;
                f.w = [20, 10, 18, 22, 8, 5, 14, 2, 4];
                f.p_mutate = 0.25;
            }
            "C09" => {
                f.p_near_tie = 0.2;
                f.p_fee_bid = 0.95;
                f.p_fee_ask = 0.8;
                f.p_tie_rates = 0.7;
                f.w = [14, 18, 5, 34, 4, 3, 16, 2, 2];
                f.p_convertible = 0.15;
                f.p_mutate = 0.08;
                f.max_steps = 80;
            }
            "C10" => {
                f.p_marker_restricted = 0.34;
                f.p_marker_coin = 0.33;
                f.p_convertible = 0.5;
                f.marker_round_robin = true;
                f.p_marker_flux_run = 0.15;
                f.p_mutate = 0.08;
            }
            "C11" => {
                f.many_orders = true;
                f.max_steps = 80;
            }
            "C12" => {
                f.w = [14, 14, 5, 20, 12, 8, 8, 22, 4];
                f.max_steps = 70;
            }
            "C13" => {
                f.p_inst_mutate = 0.75;
                f.max_steps = 25;
                f.p_nonlot = 0.5;
            }
            "C14" => {
                f.p_bulk_book = 0.01;
                f.p_migrate_run = 1.0;
                f.max_steps = 40;
            }
            "C15" => {
                f.p_bulk_book = 0.04;
                f.p_migrate_run = 1.0;
                f.p_twin = 0.8;
                f.p_fee_bid = 0.8;
                f.w = [12, 20, 4, 30, 4, 3, 16, 1, 2];
                f.max_steps = 50;
                f.p_faulty_run = 0.0;
            }
            "C16" => {
                f.max_steps = 40;
                f.p_legacy_seed = 0.4;
                f.p_migrate_run = 0.3;
            }
            "C17" => {
                f.w = [14, 14, 9, 26, 8, 6, 14, 3, 3];
            }
            _ => {}
        }
        f
    }
}

/// a price as units / 10^d
#[derive(Clone, Copy, Debug)]
pub struct Px {
    pub units: u128,
    pub d: u32,
}
impl Px {
    pub fn render(&self) -> String {
        if self.d == 0 {
            return self.units.to_string();
        }
        let s = format!("{:0>width$}", self.units, width = self.d as usize + 1);
        let (i, f) = s.split_at(s.len() - self.d as usize);
        format!("{}.{}", i, f)
    }
}

pub fn respell(p: &str, rng: &mut Rng) -> String {
    if rng.chance(0.12) {
        // far more decimals than any decimal type holds, all of them zero
        let z = "0".repeat(rng.range(20, 40) as usize);
        return if p.contains('.') { format!("{}{}", p, z) } else { format!("{}.{}", p, z) };
    }
    match rng.below(4) {
        0 => {
            if p.contains('.') {
                format!("{}0", p)
            } else {
                format!("{}.0", p)
            }
        }
        1 => format!("0{}", p),
        2 => {
            if p.contains('.') {
                format!("{}00", p)
            } else {
                format!("{}.00", p)
            }
        }
        _ => p.to_string(),
    }
}

// some names contain others ("bob" in "bobby", "dave" in "dave_2"): substring tests are not membership tests
const ACCOUNTS: [&str; 9] = ["alice", "bob", "carol", "dave", "erin", "bobby", "grace", "dave_2", "ivan"];
const RATES_PLAIN: [&str; 8] = ["0.01", "0.02", "0.001", "0.0125", "0.1", "0.003", "0.07", "0.2"];
const RATES_TIE: [&str; 10] = ["0.5", "0.25", "0.05", "0.005", "0.125", "0.0005", "0.15", "0.35", "0.050", "0.75"];
const RATES_EDGE: [&str; 9] = ["0", "0.0000001", "1", "0.99", "1.5", "2", "0.0099999999999999999", "0.0100000000000000001", "0.3333333333333333333"];

pub struct WorldGen {
    pub spec: WorldSpec,
    pub base: String,
    pub convs: Vec<String>,
    pub quotes: Vec<String>,
    pub precision: u32,
    pub inc_c: u128,
    pub mid: u128,
    pub d_choices: Vec<u32>,
    pub inst_mutated: bool,
}

fn gen_fee_pair(r: &mut Rng, accounts: &[String]) -> (Value, Value) {
    // (rate, account), heavily mutated: used by C13 instantiate cases and migrate/modify messages
    if r.chance(0.3) {
        return (Value::Null, Value::Null);
    }
    if r.chance(0.12) {
        return (json!(""), json!(""));
    }
    if r.chance(0.04) {
        // blank but not empty
        return match r.below(3) {
            0 => (json!(" "), json!(" ")),
            1 => (json!(""), json!("  ")),
            _ => (json!("\t"), json!("")),
        };
    }
    let rates = ["0", "0.01", "0.010", "0.02", "0.5", "1", "abc", "", "0.1.2", "-0.1", "1e-2", " 0.1", "0.01 ", "0.01\n", "0,01", "1/100", "0x1", "00.01", "0.0100", "0.00333333333333333333333333333333", "000.5000000000000000000000000000000000"];
    let addrs_bad = ["", "ab", "Bad-Addr", "with space"];
    let rate = if r.chance(0.07) {
        Value::Null
    } else if r.chance(0.8) {
        json!(*r.pick(&rates[..6]))
    } else {
        json!(*r.pick(&rates))
    };
    let acct = if r.chance(0.07) {
        Value::Null
    } else if r.chance(0.88) {
        json!(r.pick(accounts).clone())
    } else {
        json!(*r.pick(&addrs_bad))
    };
    (rate, acct)
}

pub fn gen_world(seed: u64, run: u64, prof: &Profile) -> WorldGen {
    let mut r = Rng::new(derive(seed, run, 1));
    let nacc = r.range(5, 9) as usize;
    let accounts: Vec<String> = ACCOUNTS[..nacc].iter().map(|s| s.to_string()).collect();
    let overlap = r.chance(prof.p_role_overlap);
    let pick_role = |r: &mut Rng, accounts: &[String], lo: usize, hi: usize| -> Vec<String> {
        let n = r.range(lo as u64, hi as u64) as usize;
        let mut v: Vec<String> = vec![];
        for _ in 0..n {
            let a = r.pick(accounts).clone();
            if !v.contains(&a) {
                v.push(a);
            }
        }
        v
    };
    // by default roles are spread over distinct accounts; with `overlap` they are drawn freely
    let (executors, approvers, askfee_acct, bidfee_acct) = if overlap {
        let e = pick_role(&mut r, &accounts, 1, 2);
        let a = pick_role(&mut r, &accounts, 1, 2);
        (e, a, r.pick(&accounts).clone(), r.pick(&accounts).clone())
    } else {
        // distinct accounts per role; sometimes two or three holders of a role
        let ne = 1 + r.pick_weighted(&[6, 3, 1]);
        let na = 1 + r.pick_weighted(&[6, 3, 1]);
        let mut e: Vec<String> = vec![];
        let mut a: Vec<String> = vec![];
        for i in 0..ne.min(nacc - 1) {
            e.push(accounts[nacc - 1 - i].clone());
        }
        for i in 0..na {
            let idx = (nacc as i64 - 1 - ne as i64 - i as i64).max(0) as usize;
            if !e.contains(&accounts[idx]) && !a.contains(&accounts[idx]) {
                a.push(accounts[idx].clone());
            }
        }
        if a.is_empty() {
            a.push(accounts[0].clone());
        }
        (e, a, "fee_ask_acct".to_string(), "fee_bid_acct".to_string())
    };
    let nconv = if r.chance(prof.p_convertible.max(0.15)) { 1 + r.pick_weighted(&[5, 4, 2]) } else { 0 };
    // "xbase" contains "base", "nusd" contains "usd"
    let convs: Vec<String> = ["cnva", "xbase", "cnvc"][..nconv].iter().map(|s| s.to_string()).collect();
    let nq = r.pick_weighted(&[6, 3, 1]) + 1;
    let quotes: Vec<String> = ["usd", "nusd", "eur"][..nq].iter().map(|s| s.to_string()).collect();
    let base = "base".to_string();
    let precision = *r.pick(&[0u32, 0, 0, 0, 1, 2, 2, 3, 6, 9, 18]);
    let inc_c = *r.pick(&[1u128, 1, 1, 2, 5, 10, 10, 25, 100]);
    let increment = inc_c * 10u128.pow(precision);
    // markers
    let mut markers: BTreeMap<String, u8> = BTreeMap::new();
    let denoms: Vec<String> = std::iter::once(base.clone()).chain(convs.iter().cloned()).chain(quotes.iter().cloned()).collect();
    if prof.marker_round_robin {
        // iterate the 3^k tables round-robin across runs
        let mut idx = run;
        for d in &denoms {
            let k = (idx % 3) as u8;
            idx /= 3;
            if k != 0 {
                markers.insert(d.clone(), k);
            }
        }
    } else {
        for d in &denoms {
            if r.chance(prof.p_marker_restricted) {
                markers.insert(d.clone(), 2);
            } else if r.chance(prof.p_marker_coin) {
                markers.insert(d.clone(), 1);
            }
        }
    }
    let pick_rate = |r: &mut Rng| -> String {
        if r.chance(0.05) {
            // a round rate minus a hair: many decimals, all nines
            let base = *r.pick(&[5u128, 1, 25, 2, 125]);
            let d0 = r.range(2, 4) as u32;
            let extra = r.range(6, 12) as u32;
            let units = base * 10u128.pow(extra) - 1;
            return Px { units, d: d0 + extra }.render();
        }
        if r.chance(0.25) {
            // arbitrary rate with 1-6 decimals
            let d = r.range(1, 6) as u32;
            let m = r.below(10u64.pow(d) / 2 + 1) as u128;
            return Px { units: m, d }.render();
        }
        if r.chance(0.06) {
            r.pick(&RATES_EDGE).to_string()
        } else if r.chance(prof.p_tie_rates) {
            r.pick(&RATES_TIE).to_string()
        } else {
            r.pick(&RATES_PLAIN).to_string()
        }
    };
    let mut m = json!({
        "name": "ats-sim",
        "base_denom": base,
        "convertible_base_denoms": convs,
        "supported_quote_denoms": quotes,
        "approvers": approvers,
        "executors": executors,
        "ask_required_attributes": [],
        "bid_required_attributes": [],
        "price_precision": precision.to_string(),
        "size_increment": increment.to_string(),
    });
    if r.chance(prof.p_fee_ask) {
        m["ask_fee_rate"] = json!(pick_rate(&mut r));
        m["ask_fee_account"] = json!(askfee_acct);
    } else if r.chance(0.1) {
        m["ask_fee_rate"] = json!("");
        m["ask_fee_account"] = json!("");
    }
    if r.chance(prof.p_fee_bid) {
        m["bid_fee_rate"] = json!(pick_rate(&mut r));
        m["bid_fee_account"] = json!(bidfee_acct);
    }
    if r.chance(0.06) {
        // unusual but legal: the contract's own base denomination is also listed as convertible
        let mut c: Vec<String> = serde_json::from_value(m["convertible_base_denoms"].clone()).unwrap_or_default();
        let at = r.below(c.len() as u64 + 1) as usize;
        c.insert(at, "base".to_string());
        m["convertible_base_denoms"] = json!(c);
    }
    let mut attrs: BTreeMap<String, Vec<String>> = BTreeMap::new();
    if r.chance(prof.p_attrs) {
        let a: Vec<&str> = if r.chance(0.5) { vec!["ask.kyc"] } else { vec!["ask.kyc", "ask.accredited"] };
        m["ask_required_attributes"] = json!(a);
    }
    if r.chance(prof.p_attrs) {
        let a: Vec<&str> = if r.chance(0.5) { vec!["bid.kyc"] } else { vec!["bid.kyc", "ask.kyc"] };
        m["bid_required_attributes"] = json!(a);
    }
    for acc in &accounts {
        let mut have: Vec<String> = vec![];
        for n in ["ask.kyc", "ask.accredited", "bid.kyc"] {
            if r.chance(0.85) {
                have.push(n.to_string());
            }
        }
        if r.chance(0.2) {
            have.push("unrelated.attr".into());
        }
        attrs.insert(acc.clone(), have);
    }
    if r.chance(0.05) && m.get("ask_fee_rate").is_some() {
        // both sides charge the same fee to the same account
        m["bid_fee_rate"] = m["ask_fee_rate"].clone();
        m["bid_fee_account"] = m["ask_fee_account"].clone();
    }
    if r.chance(0.04) {
        // legal: a contract without approvers (convertible asks can then never be approved)
        m["approvers"] = json!([]);
    }
    for acc in &accounts {
        if r.chance(0.08) {
            // an account may hold the same attribute name more than once
            if let Some(l) = attrs.get_mut(acc) {
                if let Some(f) = l.first().cloned() {
                    l.push(f);
                }
            }
        }
    }
    let mut inst_mutated = false;
    if r.chance(prof.p_inst_mutate) {
        inst_mutated = true;
        mutate_instantiate(&mut m, &mut r, &accounts);
    }
    let mut all_accounts = accounts.clone();
    for extra in ["fee_ask_acct", "fee_bid_acct", "stranger"] {
        all_accounts.push(extra.to_string());
    }
    let d_choices: Vec<u32> = if precision > 3 {
        vec![precision, precision, precision - 1, precision - 2]
    } else {
        (0..=precision).collect()
    };
    let mid = r.range(3, 1500) as u128;
    let contract = if r.chance(0.5) { "contract_addr".to_string() } else { format!("tp1contract{}", r.below(1000)) };
    let spec = WorldSpec {
        contract,
        creator: "creator".into(),
        instantiate: m,
        markers,
        attrs,
        accounts: all_accounts,
        seeds: vec![],
        height: 1000 + r.below(1_000_000),
        time_ns: 1_600_000_000_000_000_000 + r.below(1_000_000_000) * 1_000_000_000,
        probe_seed: r.next(),
        marker_required_attrs: BTreeMap::new(),
        marker_status: BTreeMap::new(),
    };
    let mut spec = spec;
    for d in spec.markers.keys().cloned().collect::<Vec<_>>() {
        if r.chance(0.25) {
            spec.marker_required_attrs.insert(d.clone(), vec!["kyc.marker.attr".to_string()]);
        }
        if r.chance(0.12) {
            // a marker of the same type that is not (or no longer) active
            spec.marker_status.insert(d, *r.pick(&[1, 2, 4, 5]));
        }
    }
    let mut wg = WorldGen {
        spec,
        base,
        convs,
        quotes,
        precision,
        inc_c,
        mid,
        d_choices,
        inst_mutated,
    };
    if !inst_mutated && r.chance(prof.p_legacy_seed) {
        seed_legacy(&mut wg, &mut r, &accounts, &approvers, false);
    }
    if !inst_mutated && r.chance(prof.p_bulk_book) {
        seed_legacy(&mut wg, &mut r, &accounts, &approvers, true);
    }
    wg
}

fn mutate_instantiate(m: &mut Value, r: &mut Rng, accounts: &[String]) {
    let nm = 1 + r.pick_weighted(&[6, 3, 1]);
    for _ in 0..nm {
        match r.below(13) {
            0 => m["name"] = json!(*r.pick(&["", "", " ", "\t", "\u{a0}"])),
            1 => m["base_denom"] = json!(""),
            2 => m["supported_quote_denoms"] = json!([]),
            3 => m["executors"] = json!([]),
            4 => {
                if r.chance(0.15) {
                    // precisions whose low bits look small
                    let big: u128 = match r.below(4) {
                        0 => 1u128 << 32,
                        1 => (1u128 << 32) + r.below(19) as u128,
                        2 => (1u128 << 64) + r.below(19) as u128,
                        _ => u128::MAX,
                    };
                    m["price_precision"] = json!(big.to_string());
                    continue;
                }
                let p = *r.pick(&[0u32, 1, 2, 6, 17, 18, 19, 25]);
                m["price_precision"] = json!(p.to_string());
                // keep a coherent increment half of the time
                if r.chance(0.5) && p <= 20 {
                    m["size_increment"] = json!((10u128.pow(p) * *r.pick(&[1u128, 3, 10])).to_string());
                }
            }
            5 => {
                let p: u32 = m["price_precision"].as_str().and_then(|s| s.parse::<u32>().ok()).unwrap_or(0).min(20);
                let v = match r.below(9) {
                    6 => {
                        // increments beyond 64 bits: a multiple of 10^p, or just off one
                        let unit = 10u128.pow(p.min(18));
                        let k = ((1u128 << 64) / unit + 1 + r.below(1000) as u128) * unit;
                        if r.chance(0.5) { k } else { k + 1 + r.below(9) as u128 }
                    }
                    7 => (1u128 << 64) + r.below(200) as u128,
                    8 => u128::MAX - r.below(3) as u128,
                    0 => 0u128,
                    1 => 1,
                    2 => 10u128.pow(p),
                    3 => 10u128.pow(p) * 3,
                    4 => 10u128.pow(p.saturating_sub(1)) * 5,
                    _ => 10u128.pow(p + 1),
                };
                m["size_increment"] = json!(v.to_string());
            }
            6 => {
                let (rt, ac) = gen_fee_pair(r, accounts);
                set_or_remove(m, "ask_fee_rate", rt);
                set_or_remove(m, "ask_fee_account", ac);
            }
            7 => {
                let (rt, ac) = gen_fee_pair(r, accounts);
                set_or_remove(m, "bid_fee_rate", rt);
                set_or_remove(m, "bid_fee_account", ac);
            }
            8 => m["approvers"] = json!([r.pick(&["", "ab", "Bad-Addr", "ok_addr"])]),
            9 => {
                let mut e: Vec<String> = serde_json::from_value(m["executors"].clone()).unwrap_or_default();
                e.push(r.pick(&["", "ab", "UPPER", "fine_addr"]).to_string());
                m["executors"] = json!(e);
            }
            10 => {
                if r.chance(0.3) {
                    // role lists much longer than usual (still a coherent configuration)
                    let k = if r.chance(0.5) { "executors" } else { "approvers" };
                    let mut v: Vec<String> = serde_json::from_value(m[k].clone()).unwrap_or_default();
                    extend_long(&mut v, r);
                    m[k] = json!(v);
                } else if r.chance(0.5) {
                    m["approvers"] = json!([]);
                } else {
                    // the same account listed twice in a row (still a coherent configuration)
                    let k = if r.chance(0.5) { "executors" } else { "approvers" };
                    let mut v: Vec<String> = serde_json::from_value(m[k].clone()).unwrap_or_default();
                    if let Some(f) = v.first().cloned() {
                        v.insert(0, f);
                    }
                    m[k] = json!(v);
                }
            }
            11 => match r.below(3) {
                0 => m["convertible_base_denoms"] = json!([]),
                1 if r.chance(0.5) => {
                    // denominations are case-sensitive strings
                    let mut qd: Vec<String> = serde_json::from_value(m["supported_quote_denoms"].clone()).unwrap_or_default();
                    qd.push("ibc/27A6394C3F9FF9C9DCF5DFFADF9BB5FE9A37C7E92B006199894CF1A350F9F0BC".to_string());
                    m["supported_quote_denoms"] = json!(qd);
                }
                1 => {
                    // the only quote denomination is the base denomination itself
                    let b = m["base_denom"].clone();
                    m["supported_quote_denoms"] = json!([b]);
                }
                _ => {
                    // the same malformed address in both role lists
                    let bad = r.pick(&["ab", "Exec_2", "", "has space"]).to_string();
                    for k in ["approvers", "executors"] {
                        let mut v: Vec<String> = serde_json::from_value(m[k].clone()).unwrap_or_default();
                        v.push(bad.clone());
                        m[k] = json!(v);
                    }
                }
            },
            _ => {
                // structurally malformed
                match r.below(3) {
                    0 => m["price_precision"] = json!(2),
                    1 => {
                        m.as_object_mut().unwrap().remove("size_increment");
                    }
                    _ => m["executors"] = json!("not-a-list"),
                }
            }
        }
    }
}

fn set_or_remove(m: &mut Value, k: &str, v: Value) {
    if v.is_null() {
        m.as_object_mut().unwrap().remove(k);
    } else {
        m[k] = v;
    }
}

fn seed_legacy(wg: &mut WorldGen, r: &mut Rng, accounts: &[String], approvers: &[String], bulk: bool) {
    let n = if bulk {
        if r.chance(0.15) {
            r.range(300, 420)
        } else {
            r.range(32, 70)
        }
    } else {
        r.range(1, 3)
    };
    let inc = wg.inc_c * 10u128.pow(wg.precision);
    for _ in 0..n {
        let mut id = r.uuid();
        if !bulk || r.chance(0.3) {
            id = id.replace('-', "");
            if r.chance(0.2) {
                // carried over from a version that kept whatever spelling the client sent
                id = id.to_uppercase();
            }
        }
        let px = gen_px(wg, r, 0);
        let size = inc * r.range(1, 12) as u128;
        let owner = r.pick(accounts).clone();
        let quote = r.pick(&wg.quotes).clone();
        // one storage key per seeded order (remarkable UUID shapes repeat)
        let side_is_ask = !bulk && r.chance(0.5);
        if wg.spec.seeds.iter().any(|s| s.key_id == id && (s.side == "ask") == side_is_ask) {
            continue;
        }
        if side_is_ask {
            let conv = !wg.convs.is_empty() && r.chance(0.4);
            let class = if !conv {
                json!("Basic")
            } else if r.chance(0.5) || approvers.is_empty() {
                json!({"Convertible": {"status": "PendingIssuerApproval"}})
            } else {
                json!({"Convertible": {"status": {"Ready": {"approver": approvers[0], "converted_base": {"denom": wg.base, "amount": size.to_string()}}}}})
            };
            wg.spec.seeds.push(SeedOrder {
                side: "ask".into(),
                key_id: id.clone(),
                value: json!({
                    "id": id, "owner": owner, "class": class,
                    "base": if conv { wg.convs[0].clone() } else { wg.base.clone() },
                    "quote": quote, "price": px.render(), "size": size.to_string()
                }),
            });
        } else {
            let total = px.units * size / 10u128.pow(px.d);
            let fee = if r.chance(0.5) {
                let rate = r.pick(&RATES_TIE);
                match fee_amount(rate, total) {
                    Some(f) if f > 0 => json!({"denom": quote, "amount": f.to_string()}),
                    _ => Value::Null,
                }
            } else {
                Value::Null
            };
            wg.spec.seeds.push(SeedOrder {
                side: "bid".into(),
                key_id: id.clone(),
                value: json!({
                    "base": {"denom": wg.base, "amount": size.to_string()},
                    "accumulated_base": "0", "accumulated_quote": "0", "accumulated_fee": "0",
                    "fee": fee, "id": id, "owner": owner, "price": px.render(),
                    "quote": {"denom": quote, "amount": total.to_string()}
                }),
            });
        }
    }
}

/// rate * total rounded half-up, by the generator's own integer arithmetic
pub fn fee_amount(rate: &str, total: u128) -> Option<u128> {
    match dec::parse(rate) {
        Parsed::Ok(r) if !r.neg => {
            let m = dec::to_u128(r.mant)?;
            let den = 10u128.checked_pow(r.scale)?;
            let num = m.checked_mul(total)?;
            Some((num.checked_mul(2)?.checked_add(den)?) / (den.checked_mul(2)?))
        }
        _ => None,
    }
}

/// price around the world's mid; side: -1 cheaper (asks that cross), +1 dearer, 0 anywhere
pub fn gen_px(wg: &WorldGen, r: &mut Rng, side: i32) -> Px {
    let d = *r.pick(&wg.d_choices);
    let spread = (wg.mid / 8).max(2);
    let delta = r.below(spread as u64 + 1) as u128;
    let units = match side {
        -1 => wg.mid.saturating_sub(delta).max(1),
        1 => wg.mid + delta,
        _ => {
            if r.chance(0.5) {
                wg.mid.saturating_sub(delta).max(1)
            } else {
                wg.mid + delta
            }
        }
    };
    Px { units, d }
}

/// A bid and a fill chosen so that the fee the bid must keep afterwards, fee x remaining / quote,
/// lands on an exact half unit or within a chosen distance below / above it (several scales, so that
/// an extra rounding step at any number of decimals is crossed). All through ordinary requests.
fn near_tie_prefix(sim: &Sim, r: &mut Rng) -> Vec<(String, Vec<CoinS>, Value)> {
    let cfg = &sim.cfg;
    let fee = match &cfg.bid_fee {
        Some(f) => f,
        None => return vec![],
    };
    if cfg.precision != 0 || cfg.increment != 1 || !cfg.ask_attrs.is_empty() || !cfg.bid_attrs.is_empty() || cfg.executors.is_empty() {
        return vec![];
    }
    let quote = cfg.quotes[0].clone();
    let base = cfg.base_denom.clone();
    let accounts: Vec<&String> = sim.spec.accounts.iter().filter(|a| !a.starts_with("fee_") && a.as_str() != "stranger").collect();
    if accounts.len() < 2 {
        return vec![];
    }
    let buyer = accounts[0].clone();
    let seller = accounts[1].clone();
    let e = r.range(6, 15) as u32;
    let mut q = 10u128.pow(e) + r.below(10u64.pow(e.min(18))) as u128;
    let mut f = 0u128;
    let gcd = |mut a: u128, mut b: u128| {
        while b != 0 {
            let t = a % b;
            a = b;
            b = t;
        }
        a
    };
    let mut ok = false;
    for _ in 0..60 {
        f = fee_amount(&fee.rate, q).unwrap_or(0);
        if f >= 1 && f < q && gcd(f, q) == 1 {
            ok = true;
            break;
        }
        q += 1;
    }
    if !ok {
        return vec![];
    }
    // modular inverse of f modulo q (extended Euclid on signed 128-bit values; q <= 2e15)
    let (mut old_r, mut rr) = (f as i128, q as i128);
    let (mut old_s, mut ss) = (1i128, 0i128);
    while rr != 0 {
        let k = old_r / rr;
        let t = old_r - k * rr;
        old_r = rr;
        rr = t;
        let t2 = old_s - k * ss;
        old_s = ss;
        ss = t2;
    }
    let inv = ((old_s % q as i128) + q as i128) as u128 % q;
    let scales: [u128; 7] = [0, 1, 2, q / 10u128.pow(13), q / 10u128.pow(10), q / 10u128.pow(7), q / 10u128.pow(4)];
    let d = *r.pick(&scales);
    let half = q / 2;
    let t = if r.chance(0.5) { half.saturating_sub(d) } else { (half + 1 + d).min(q - 1) };
    let rem = (t % q) * inv % q; // f * rem = t (mod q)
    let s_fill = q - rem;
    if s_fill == 0 || s_fill > q {
        return vec![];
    }
    let bid_id = r.uuid();
    let ask_id = r.uuid();
    let bfunds = if restricted(sim, &quote) { vec![] } else { vec![CoinS::new(q + f, &quote)] };
    let afunds = if restricted(sim, &base) { vec![] } else { vec![CoinS::new(s_fill, &base)] };
    vec![
        (
            buyer,
            bfunds,
            json!({"create_bid": {"id": bid_id, "base": base, "fee": {"denom": quote, "amount": f.to_string()}, "price": "1", "quote": quote, "quote_size": q.to_string(), "size": q.to_string()}}),
        ),
        (seller, afunds, json!({"create_ask": {"id": ask_id, "base": base, "quote": quote, "price": "1", "size": s_fill.to_string()}})),
        (
            cfg.executors[0].clone(),
            vec![],
            json!({"execute_match": {"ask_id": ask_id, "bid_id": bid_id, "price": "1", "size": s_fill.to_string()}}),
        ),
    ]
}

// ------------------------------------------------------------------ the run

pub struct Pending {
    pub due: u64,
    pub sender: String,
    pub funds: Vec<CoinS>,
    pub msg: Value,
}

pub struct RunOutput {
    pub world: WorldSpec,
    pub steps: Vec<Step>,
    pub violation: Option<Violation>,
    pub cov: Cov,
    pub event_hashes: Vec<u64>,
    pub samples: Vec<Value>,
    /// all observations made in the violating step (for the cross-property matrix)
    pub all_in_step: Vec<Violation>,
}

struct View {
    shadow: Shadow,
    cursor: usize,
}

pub struct FaultCfg {
    pub p_gas: f64,
    pub p_dispatch: f64,
    pub p_query: f64,
    pub p_drop: f64,
    pub p_dup: f64,
    pub p_delay: f64,
    pub p_restart: f64,
    pub p_marker_flux: f64,
    pub p_attr_flux: f64,
    pub migrations: Vec<u64>, // at these delivered-step counts
    pub p_env_jump: f64,
}

fn draw_faults(r: &mut Rng, prof: &Profile) -> FaultCfg {
    let mut f = FaultCfg {
        p_gas: 0.0,
        p_dispatch: 0.0,
        p_query: 0.0,
        p_drop: 0.0,
        p_dup: 0.0,
        p_delay: 0.3,
        p_restart: 0.0,
        p_marker_flux: 0.0,
        p_attr_flux: 0.0,
        migrations: vec![],
        p_env_jump: 0.0,
    };
    if r.chance(prof.p_faulty_run) {
        // swarm: 1-3 enabled kinds, modest rates
        let n = 1 + r.below(3);
        for _ in 0..n {
            match r.below(8) {
                0 => f.p_gas = 0.08,
                1 => f.p_dispatch = 0.08,
                2 => f.p_query = 0.08,
                3 => f.p_drop = 0.1,
                4 => f.p_dup = 0.12,
                5 => f.p_restart = 0.05,
                6 => f.p_attr_flux = 0.04,
                _ => f.p_env_jump = 0.05,
            }
        }
        f.p_delay = 0.5;
    }
    if r.chance(prof.p_marker_flux_run) {
        f.p_marker_flux = 0.06;
    }
    if r.chance(prof.p_migrate_run) {
        let n = 1 + r.below(2);
        for _ in 0..n {
            f.migrations.push(r.range(1, (prof.max_steps as u64 * 3 / 4).max(2)));
        }
        f.migrations.sort();
    }
    f
}

pub fn run_one(seed: u64, run: u64, prof: &Profile, enabled: Enabled, want_samples: bool) -> RunOutput {
    let wg = gen_world(seed, run, prof);
    let mut sim = Sim::new(&wg.spec, enabled);
    let mut out = RunOutput {
        world: wg.spec.clone(),
        steps: vec![],
        violation: None,
        cov: Cov::new(),
        event_hashes: vec![],
        samples: vec![],
        all_in_step: vec![],
    };
    if let Some(v) = sim.take_violation() {
        out.violation = Some(v);
        out.cov = sim.cov.clone();
        return out;
    }
    if !sim.instantiated || sim.cfg.increment > 10u128.pow(24) || sim.cfg.precision > 18 {
        // refused configuration, or an (accepted) one with an astronomically large lot: the
        // instantiate case has been judged; order traffic would only overflow the generator
        out.cov = sim.cov.clone();
        return out;
    }
    let mut ra = Rng::new(derive(seed, run, 2)); // actors
    let mut rm = Rng::new(derive(seed, run, 3)); // mempool
    let mut rf = Rng::new(derive(seed, run, 4)); // faults
    let fc = draw_faults(&mut rf, prof);
    let mut views: Vec<View> = (0..3).map(|_| View { shadow: sim.shadow.clone(), cursor: 0 }).collect();
    let lags = [0u64, 3, 10];
    let mut mempool: Vec<Pending> = vec![];
    let mut block: u64 = 0;
    let mut delivered = 0usize;
    let mut closed_ids: Vec<String> = vec![];
    let mut mig_idx = 0usize;
    let max_open = if prof.many_orders { 12 } else { 7 };
    let mut delivered_log: Vec<(String, Vec<CoinS>, Value)> = vec![];
    let ttl = 6 + ra.below(20);

    macro_rules! apply {
        ($step:expr) => {{
            let st: Step = $step;
            let (rep, v) = sim.apply(&st);
            out.event_hashes.push(rep.event_hash);
            out.steps.push(st);
            if let Some(v) = v {
                out.violation = Some(v);
                out.all_in_step = sim.last_all.clone();
                out.cov = sim.cov.clone();
                return out;
            }
            rep
        }};
    }

    if ra.chance(prof.p_near_tie) {
        let pre = near_tie_prefix(&sim, &mut ra);
        if !pre.is_empty() {
            sim.cov.probe("near_tie_directed_fill");
        }
        for (sender, funds, msg) in pre {
            apply!(Step::Exec { sender, funds, msg, faults: TxFaults::default() });
            delivered += 1;
        }
    }
    while delivered < prof.max_steps && block < (prof.max_steps as u64) * 3 {
        block += 1;
        // ---- parties submit
        let nsub = 1 + ra.below(3);
        for _ in 0..nsub {
            let k = ra.pick_weighted(&[5, 3, 2]);
            {
                let v = &mut views[k];
                let target = sim.event_log.len().saturating_sub(ra.below(lags[k] + 1) as usize);
                while v.cursor < target {
                    let (attrs, sender, h) = &sim.event_log[v.cursor];
                    v.shadow.apply(attrs, sender, *h);
                    v.cursor += 1;
                }
            }
            let view = views[k].shadow.clone();
            if let Some((sender, funds, msg)) = decide(&wg, &sim, &view, prof, &mut ra, &closed_ids, max_open, ttl) {
                let delay = if rm.chance(fc.p_delay) { rm.geometric(0.5, 6) } else { 0 };
                if rm.chance(fc.p_drop) {
                    sim.cov.fault("F4_loss");
                    continue;
                }
                if rm.chance(fc.p_dup) {
                    sim.cov.fault("F3_duplicate_delivery");
                    mempool.push(Pending { due: block + delay + rm.below(3), sender: sender.clone(), funds: funds.clone(), msg: msg.clone() });
                }
                if delay > 0 {
                    sim.cov.fault("F5_delay");
                }
                mempool.push(Pending { due: block + delay, sender, funds, msg });
            }
        }
        // a request delivered long ago arrives once more, verbatim (a client that retries late)
        if !delivered_log.is_empty() && rm.chance(0.05) {
            let (s0, f0, m0) = rm.pick(&delivered_log).clone();
            sim.cov.fault("F3_late_duplicate_delivery");
            mempool.push(Pending { due: block, sender: s0, funds: f0, msg: m0 });
        }
        // ---- environment events
        if rf.chance(fc.p_restart) {
            apply!(Step::Restart);
        }
        if rf.chance(fc.p_marker_flux) {
            let denoms: Vec<String> = std::iter::once(wg.base.clone()).chain(wg.convs.iter().cloned()).chain(wg.quotes.iter().cloned()).collect();
            let d = rf.pick(&denoms).clone();
            apply!(Step::SetMarker { denom: d, kind: rf.below(3) as u8 });
        }
        if rf.chance(fc.p_attr_flux) {
            let a = rf.pick(&wg.spec.accounts).clone();
            let names: Vec<String> = ["ask.kyc", "ask.accredited", "bid.kyc"].iter().filter(|_| rf.chance(0.6)).map(|s| s.to_string()).collect();
            apply!(Step::SetAttrs { account: a, names });
        }
        let jump = if rf.chance(fc.p_env_jump) { 100 + rf.below(100_000) } else { 1 };
        apply!(Step::Advance { blocks: jump });
        while mig_idx < fc.migrations.len() && fc.migrations[mig_idx] <= delivered as u64 {
            mig_idx += 1;
            let st = gen_migrate(&sim, &mut rf, prof);
            apply!(st);
            for v in views.iter_mut() {
                // configuration is public; nothing to resync in the order views
                let _ = v;
            }
        }
        // ---- deliveries due in this block, in a seeded order
        let mut due: Vec<Pending> = vec![];
        let mut rest: Vec<Pending> = vec![];
        for p in mempool.drain(..) {
            if p.due <= block {
                due.push(p)
            } else {
                rest.push(p)
            }
        }
        mempool = rest;
        if due.len() > 1 {
            rm.shuffle(&mut due);
            sim.cov.fault("F5_reordering_in_block");
        }
        for p in due {
            let mut faults = TxFaults::default();
            if rf.chance(fc.p_gas) {
                faults.gas_abort_at = Some(1 + rf.below(14));
            }
            if rf.chance(fc.p_dispatch) {
                faults.dispatch_fail = Some(rf.below(4) as u32);
            }
            if rf.chance(fc.p_query) {
                faults.query_fail = Some((rf.below(3) as u32, if rf.chance(0.5) { "system".into() } else { "contract".into() }));
            }
            let before_asks: Vec<String> = sim.book.asks.keys().cloned().collect();
            let before_bids: Vec<String> = sim.book.bids.keys().cloned().collect();
            if delivered_log.len() < 48 {
                delivered_log.push((p.sender.clone(), p.funds.clone(), p.msg.clone()));
            } else {
                let k = rm.below(48) as usize;
                delivered_log[k] = (p.sender.clone(), p.funds.clone(), p.msg.clone());
            }
            let _rep = apply!(Step::Exec { sender: p.sender, funds: p.funds, msg: p.msg, faults });
            delivered += 1;
            for id in before_asks {
                if !sim.book.asks.contains_key(&id) && closed_ids.len() < 64 {
                    closed_ids.push(id);
                }
            }
            for id in before_bids {
                if !sim.book.bids.contains_key(&id) && closed_ids.len() < 64 {
                    closed_ids.push(id);
                }
            }
            if delivered >= prof.max_steps {
                break;
            }
        }
    }
    out.cov = sim.cov.clone();
    if want_samples {
        out.samples.push(json!({
            "world": {"instantiate": out.world.instantiate, "markers": out.world.markers},
            "steps": out.steps.iter().filter(|s| !matches!(s, Step::Advance { .. })).take(12).collect::<Vec<_>>(),
            "delivered": delivered,
        }));
    }
    out
}

fn gen_migrate(sim: &Sim, r: &mut Rng, prof: &Profile) -> Step {
    let versions = [
        "0.15.0", "0.16.1", "0.16.2", "0.16.3", "0.17.3", "0.18.2", "0.19.0", "0.19.1", "0.19.2", "1.0.0", "1.0.1", "2.3.4",
        "", "abc", "0.16", "v0.17.0", "0.16.02", "0.17.0-rc1", "0.16.2-rc.1", "0.16.1-beta", "0.15.0-alpha.1", "1.0.0+build5", "<absent>", "<garbage>", "<nodef>0.17.0", "<nodef>1.0.0", "0.19.0+hotfix.1", "0.17.3+b1", "0.16.2+x", "0.19.1+meta", "0.18.2\n", "1.0.0 ", " 0.18.2",
    ];
    let set_version = if r.chance(0.12) {
        None
    } else if r.chance(0.35) {
        // arbitrary triple around the thresholds
        Some(format!("{}.{}.{}", r.pick_weighted(&[8, 2, 1]), r.range(13, 21), r.range(0, 6)))
    } else if r.chance(0.55) {
        Some(r.pick(&versions[2..9]).to_string())
    } else {
        Some(r.pick(&versions).to_string())
    };
    let mut m = json!({});
    let accounts = &sim.spec.accounts;
    if r.chance(0.35) {
        let mut v: Vec<String> = sim.cfg.approvers.clone();
        match r.below(4) {
            0 => v.push(r.pick(accounts).clone()),
            1 => {
                if !v.is_empty() {
                    v.remove(0);
                }
            }
            2 => v = vec![],
            _ => {
                if r.chance(0.15) {
                    v.push("Bad-Addr".into())
                } else if r.chance(0.2) {
                    extend_long(&mut v, r)
                }
            }
        }
        m["approvers"] = json!(v);
    }
    let fee_bids_open = sim.book.bids.values().any(|b| b.fee.is_some());
    for side in ["ask", "bid"] {
        if side == "bid" && fee_bids_open && sim.cfg.bid_fee.is_some() && r.chance(0.2) {
            m["bid_fee_rate"] = json!("");
            m["bid_fee_account"] = json!("");
        } else if r.chance(0.4) {
            let (rt, ac) = if r.chance(0.7) {
                // mostly valid pairs
                if r.chance(0.15) {
                    (json!(""), json!(""))
                } else {
                    (json!(*r.pick(&RATES_PLAIN)), json!(r.pick(accounts).clone()))
                }
            } else {
                gen_fee_pair(r, accounts)
            };
            if !rt.is_null() {
                m[format!("{}_fee_rate", side)] = rt;
            }
            if !ac.is_null() {
                m[format!("{}_fee_account", side)] = ac;
            }
        }
        if r.chance(0.2) {
            let l: Vec<&str> = match r.below(4) {
                0 | 1 => vec![],
                2 => vec!["ask.kyc"],
                _ => vec!["KYC.Verified", "ask.kyc"],
            };
            m[format!("{}_required_attributes", side)] = json!(l);
        }
    }
    let mut v2_ids: Vec<String> = vec![];
    let all = r.chance(0.35);
    for id in sim.book.bids.keys() {
        if all || r.chance(0.65) {
            v2_ids.push(id.clone());
        }
    }
    Step::Migrate {
        set_version,
        msg: m,
        v2_ids,
        v2_seed: r.next(),
        twice: r.chance(0.5),
        twin: r.chance(prof.p_twin),
    }
}

fn restricted(sim: &Sim, d: &str) -> bool {
    sim.chain.querier.markers.get(d).copied().unwrap_or(0) == 2
}

/// another spelling of the same UUID (none of them is the key the order is stored under)
fn other_spelling(id: &str, r: &mut Rng) -> String {
    let hyph = |h: &str| -> String {
        if h.len() == 32 {
            format!("{}-{}-{}-{}-{}", &h[0..8], &h[8..12], &h[12..16], &h[16..20], &h[20..32])
        } else {
            h.to_string()
        }
    };
    match r.below(6) {
        0 => id.to_uppercase(),
        1 => {
            if id.contains('-') {
                id.replace('-', "")
            } else {
                hyph(id)
            }
        }
        2 => format!("{{{}}}", id),
        3 => format!("urn:uuid:{}", id),
        4 => {
            // mixed case
            id.chars().enumerate().map(|(i, c)| if i % 3 == 0 { c.to_ascii_uppercase() } else { c }).collect()
        }
        _ => {
            if id.contains('-') {
                id.replace('-', "").to_uppercase()
            } else {
                hyph(id).to_uppercase()
            }
        }
    }
}

fn random_id(r: &mut Rng, view: &Shadow, closed: &[String]) -> String {
    match r.below(5) {
        0 if !view.asks.is_empty() => {
            let k: Vec<&String> = view.asks.keys().collect();
            (*r.pick(&k)).clone()
        }
        1 if !view.bids.is_empty() => {
            let k: Vec<&String> = view.bids.keys().collect();
            (*r.pick(&k)).clone()
        }
        2 if !closed.is_empty() => r.pick(closed).clone(),
        _ => r.uuid(),
    }
}

#[allow(clippy::too_many_arguments)]
fn decide(
    wg: &WorldGen,
    sim: &Sim,
    view: &Shadow,
    prof: &Profile,
    r: &mut Rng,
    closed: &[String],
    max_open: usize,
    ttl: u64,
) -> Option<(String, Vec<CoinS>, Value)> {
    let cfg = &sim.cfg;
    let accounts: Vec<String> = sim.spec.accounts.iter().filter(|a| a.as_str() != "stranger" && !a.starts_with("fee_")).cloned().collect();
    let mut w = prof.w;
    let open = view.asks.len() + view.bids.len();
    if open >= max_open {
        w[0] = 1;
        w[1] = 1;
    }
    if view.asks.len() < 1 {
        w[0] *= 3;
    }
    if view.bids.len() < 1 {
        w[1] *= 3;
    }
    let inc = cfg.increment.max(1);
    let unit = 10u128.pow(wg.precision);
    match r.pick_weighted(&w) {
        0 => {
            // place ask
            let sender = r.pick(&accounts).clone();
            let conv = !cfg.convertibles.is_empty() && r.chance(prof.p_convertible);
            let mut base = if conv { r.pick(&cfg.convertibles).clone() } else { cfg.base_denom.clone() };
            let mut quote = r.pick(&cfg.quotes).clone();
            let side = if r.chance(0.6) { -1 } else { 0 };
            let px = gen_px(wg, r, side);
            let mut price = px.render();
            if r.chance(0.1) {
                price = respell(&price, r);
            }
            let mut size = inc * r.range(1, 20) as u128;
            let whale = wg.precision == 0 && cfg.bid_fee.is_none() && cfg.ask_fee.is_none() && r.chance(0.03);
            if whale {
                {
                    let s0 = 10u128.pow(26) * r.range(1, 200) as u128 + r.below(1_000_000) as u128 * inc;
                    size = s0 - s0 % inc;
                }
            }
            let px = if whale { Px { units: 1 + r.below(3) as u128, d: 0 } } else { px };
            if whale {
                price = px.render();
            } else if wg.precision == 0 && r.chance(0.01) {
                // an ask whose price x size is far beyond anything the contract has to compute
                let s0 = 10u128.pow(27) * r.range(1, 50) as u128;
                size = (s0 - s0 % inc).max(inc);
            } else if r.chance(0.03) {
                let e = r.range(4, 12) as u32;
                size = size.saturating_mul(10u128.pow(e)).min(5 * 10u128.pow(28));
                size -= size % inc;
                if size == 0 {
                    size = inc;
                }
            }
            if whale && inc > 1 && r.chance(0.3) {
                size += 1 + r.below((inc - 1).min(u64::MAX as u128) as u64) as u128;
            }
            let mut id = r.uuid();
            let mut funds = if restricted(sim, &base) { vec![] } else { vec![CoinS::new(size, &base)] };
            if r.chance(prof.p_mutate) {
                match r.below(18) {
                    16 => {
                        // a base one edit away from a listed one, escrowed in that very denomination
                        let from = if !cfg.convertibles.is_empty() && r.chance(0.7) { r.pick(&cfg.convertibles).clone() } else { cfg.base_denom.clone() };
                        base = near_miss_denom(&from, r);
                        funds = if restricted(sim, &base) { vec![] } else { vec![CoinS::new(size, &base)] };
                    }
                    17 => quote = near_miss_denom(&quote, r),
                    0 => funds = vec![CoinS::new(size + 1, &base)],
                    1 => funds = vec![CoinS::new(size.saturating_sub(1).max(1), &base)],
                    2 => funds.push(CoinS::new(1, &quote)),
                    3 => funds = if funds.is_empty() { vec![CoinS::new(size, &base)] } else { vec![] },
                    4 => funds = vec![CoinS::new(size, &quote)],
                    5 => price = Px { units: px.units * 10 + 1, d: wg.precision + 1 }.render(),
                    6 => price = r.pick(&["0", "-1", "abc", "", "0.0", "-0.5", "1,5", "1e3"]).to_string(),
                    7 => size += if inc > 1 { 1 + r.below((inc - 1).min(u64::MAX as u128) as u64) as u128 } else { 0 },
                    8 => size = 0,
                    9 => quote = "nope".into(),
                    10 => base = "nope".into(),
                    11 => id = id.replace('-', ""),
                    12 => id = id.to_uppercase(),
                    13 => id = r.pick(&["", "not-a-uuid", "1234"]).to_string(),
                    14 => id = random_id(r, view, closed),
                    _ => {
                        if let Some(b) = view.bids.keys().next() {
                            id = b.clone()
                        }
                    }
                }
            }
            Some((sender, funds, json!({"create_ask": {"id": id, "base": base, "quote": quote, "price": price, "size": size.to_string()}})))
        }
        1 => {
            // place bid
            let sender = r.pick(&accounts).clone();
            let mut quote = r.pick(&cfg.quotes).clone();
            let side = if r.chance(0.6) { 1 } else { 0 };
            let px = gen_px(wg, r, side);
            let mut price = px.render();
            if r.chance(0.1) {
                price = respell(&price, r);
            }
            let mut size = inc * r.range(1, 20) as u128;
            let whale = wg.precision == 0 && cfg.bid_fee.is_none() && cfg.ask_fee.is_none() && r.chance(0.03);
            let mut px = if whale { Px { units: 1 + r.below(3) as u128, d: 0 } } else { px };
            if whale {
                {
                    let s0 = 10u128.pow(26) * r.range(1, 200) as u128 + r.below(1_000_000) as u128 * inc;
                    size = s0 - s0 % inc;
                }
                price = px.render();
            }
            if !whale && wg.precision == 0 && inc == 1 && r.chance(0.01) {
                // right at the edge of what a 96-bit decimal holds
                size = (1u128 << 96) - 1 - r.below(2000) as u128;
                px = Px { units: 1, d: 0 };
                price = px.render();
            } else if !whale && r.chance(0.03) {
                // a large order in a world that may carry fees: totals up to about 10^13 stay inside
                // the model's domain, larger ones are still judged by the model-free invariants
                let e = r.range(4, 12) as u32;
                size = size.saturating_mul(10u128.pow(e)).min(5 * 10u128.pow(28));
                size -= size % inc;
                if size == 0 {
                    size = inc;
                }
            }
            // sometimes aim the total at a value whose fee is within a hair of a half unit
            let mut px = px; let _ = &mut px;
            let mut tie_aimed = false;
            if !whale && r.chance(0.12) {
                if let Some(f) = &cfg.bid_fee {
                    if let Parsed::Ok(rt) = dec::parse(&f.rate) {
                        if let Some(mant) = dec::to_u128(rt.mant) {
                            if mant > 0 && rt.scale <= 30 {
                                if let Some(den) = 10u128.checked_pow(rt.scale) {
                                    // T ~ (k + 1/2) / rate
                                    let k = if r.chance(0.25) { 0 } else { r.below(40) as u128 };
                                    if let Some(num) = (2 * k + 1).checked_mul(den) {
                                        let t = (num / (2 * mant)).max(1);
                                        let t = if r.chance(0.3) { t + 1 } else { t };
                                        let c = wg.inc_c.max(1);
                                        let units = (t / c).max(1);
                                        if units < 10u128.pow(12) {
                                            px = Px { units, d: wg.precision };
                                            size = inc;
                                            price = px.render();
                                            tie_aimed = true;
                                        }
                                    }
                                }
                            }
                        }
                    }
                }
            }
            let total = px.units * size / 10u128.pow(px.d);
            let mut quote_size = total;
            let fee_amt = cfg.bid_fee.as_ref().and_then(|f| fee_amount(&f.rate, total)).unwrap_or(0);
            let mut fee: Value = if fee_amt > 0 || r.chance(0.08) { json!({"denom": quote, "amount": fee_amt.to_string()}) } else { Value::Null };
            let mut base = cfg.base_denom.clone();
            let mut id = r.uuid();
            let mut funds = if restricted(sim, &quote) { vec![] } else { vec![CoinS::new(total + fee_amt, &quote)] };
            if r.chance(prof.p_mutate) {
                match r.below(21) {
                    20 => {
                        // a quote one edit away from a traded one; escrow and fee follow it
                        quote = near_miss_denom(&quote, r);
                        funds = if restricted(sim, &quote) { vec![] } else { vec![CoinS::new(total + fee_amt, &quote)] };
                        if !fee.is_null() {
                            fee = json!({"denom": quote, "amount": fee_amt.to_string()});
                        }
                    }
                    0 => funds = vec![CoinS::new(total + fee_amt + 1, &quote)],
                    1 => funds = vec![CoinS::new((total + fee_amt).saturating_sub(1).max(1), &quote)],
                    2 => funds.push(CoinS::new(1, &base)),
                    3 => funds = if funds.is_empty() { vec![CoinS::new(total + fee_amt, &quote)] } else { vec![] },
                    4 => funds = vec![CoinS::new(total, &quote)],
                    5 => price = Px { units: px.units * 10 + 1, d: wg.precision + 1 }.render(),
                    6 => price = r.pick(&["0", "-1", "abc", "", "0.0", "-0.5", "1,5", "1e3"]).to_string(),
                    7 => size += if inc > 1 { 1 + r.below((inc - 1).min(u64::MAX as u128) as u64) as u128 } else { 0 },
                    8 => size = 0,
                    9 => quote_size += 1,
                    10 => quote_size = quote_size.saturating_sub(1),
                    11 => fee = Value::Null,
                    12 => fee = json!({"denom": quote, "amount": (fee_amt + 1).to_string()}),
                    13 => {
                        // a fee coin in another denomination: the base, or another traded quote
                        let other: Vec<&String> = cfg.quotes.iter().filter(|q| **q != quote).collect();
                        let d = if !other.is_empty() && r.chance(0.7) { (*r.pick(&other)).clone() } else { base.clone() };
                        fee = json!({"denom": d, "amount": fee_amt.max(1).to_string()});
                    }
                    14 => fee = json!({"denom": quote, "amount": fee_amt.saturating_sub(1).to_string()}),
                    15 => quote = "nope".into(),
                    16 => base = if cfg.convertibles.is_empty() { "nope".into() } else { cfg.convertibles[0].clone() },
                    17 => id = r.pick(&["", "not-a-uuid", "1234"]).to_string(),
                    18 => id = random_id(r, view, closed),
                    _ => id = if r.chance(0.5) { id.replace('-', "") } else { id.to_uppercase() },
                }
            }
            if tie_aimed && r.chance(0.2) {
                // a bidder whose own fee arithmetic rounds the other way (or who knows of no fee):
                // fee field and escrow agree with each other, not with the configured rule
                let unrestricted = !restricted(sim, &quote);
                match r.below(3) {
                    0 => {
                        fee = Value::Null;
                        if unrestricted {
                            funds = vec![CoinS::new(total, &quote)];
                        }
                    }
                    1 => {
                        let f = fee_amt.saturating_sub(1);
                        fee = if f == 0 { Value::Null } else { json!({"denom": quote, "amount": f.to_string()}) };
                        if unrestricted {
                            funds = vec![CoinS::new(total + f, &quote)];
                        }
                    }
                    _ => {
                        fee = json!({"denom": quote, "amount": (fee_amt + 1).to_string()});
                        if unrestricted {
                            funds = vec![CoinS::new(total + fee_amt + 1, &quote)];
                        }
                    }
                }
            }
            let mut body = json!({"id": id, "base": base, "price": price, "quote": quote, "quote_size": quote_size.to_string(), "size": size.to_string()});
            if !fee.is_null() {
                body["fee"] = fee;
            }
            Some((sender, funds, json!({"create_bid": body})))
        }
        2 => {
            // approve
            let pend: Vec<(&String, &ShadowAsk)> = view.asks.iter().filter(|(_, a)| a.state == "pending").collect();
            let mutate = r.chance(prof.p_mutate);
            let ready: Vec<(&String, &ShadowAsk)> = view.asks.iter().filter(|(_, a)| a.state == "ready").collect();
            let (id, size) = if !ready.is_empty() && r.chance(0.12) {
                // somebody tries to approve an ask that is approved already
                let (id, a) = *r.pick(&ready);
                (id.clone(), a.remaining)
            } else if !pend.is_empty() && !(mutate && r.chance(0.3)) {
                let (id, a) = *r.pick(&pend);
                (id.clone(), a.remaining)
            } else if !view.asks.is_empty() {
                let k: Vec<(&String, &ShadowAsk)> = view.asks.iter().collect();
                let (id, a) = *r.pick(&k);
                (id.clone(), a.remaining)
            } else {
                return None;
            };
            let mut sender = if cfg.approvers.is_empty() { r.pick(&accounts).clone() } else { r.pick(&cfg.approvers).clone() };
            let mut base = cfg.base_denom.clone();
            let mut sz = size;
            let mut funds = if restricted(sim, &base) { vec![] } else { vec![CoinS::new(sz, &base)] };
            if mutate {
                match r.below(8) {
                    7 => {
                        let d = r.pick(&cfg.quotes).clone();
                        funds.push(CoinS::new(1 + r.below(9) as u128, &d));
                    }
                    0 => sz += inc,
                    1 => sz = sz.saturating_sub(inc).max(1),
                    2 => funds = vec![CoinS::new(sz + 1, &base)],
                    3 => funds = if funds.is_empty() { vec![CoinS::new(sz, &base)] } else { vec![] },
                    4 => sender = r.pick(&accounts).clone(),
                    5 => {
                        if r.chance(0.5) {
                            base = view.asks.get(&id).map(|a| a.base.clone()).unwrap_or(base);
                        } else {
                            // a look-alike of the base denomination
                            base = base.to_uppercase();
                        }
                        funds = if r.chance(0.5) { vec![CoinS::new(sz, &base)] } else { vec![] };
                    }
                    _ => {}
                }
            }
            Some((sender, funds, json!({"approve_ask": {"id": id, "base": base, "size": sz.to_string()}})))
        }
        3 => {
            // match
            if view.asks.is_empty() || view.bids.is_empty() {
                return None;
            }
            let sender = if r.chance(0.97) { r.pick(&cfg.executors).clone() } else { r.pick(&accounts).clone() };
            let asks: Vec<(&String, &ShadowAsk)> = view.asks.iter().collect();
            let bids: Vec<(&String, &ShadowBid)> = view.bids.iter().collect();
            // look for a crossing pair (a few tries), else any pair
            let mut pick: Option<(&String, &ShadowAsk, &String, &ShadowBid)> = None;
            for _ in 0..8 {
                let (ai, a) = *r.pick(&asks);
                let (bi, b) = *r.pick(&bids);
                let cross = match (dec::parse(&a.price), dec::parse(&b.price)) {
                    (Parsed::Ok(x), Parsed::Ok(y)) => x.cmp_val(&y) != std::cmp::Ordering::Greater,
                    _ => false,
                };
                let legacy = !ai.contains('-') || !bi.contains('-');
                if legacy && r.chance(0.8) {
                    continue;
                }
                if cross && a.quote == b.quote && a.state != "pending" {
                    pick = Some((ai, a, bi, b));
                    break;
                }
                if pick.is_none() {
                    pick = Some((ai, a, bi, b));
                }
            }
            let (ai, a, bi, b) = pick?;
            let m = a.remaining.min(b.remaining).max(1);
            let mut price = if r.chance(prof.p_improved_price) { a.price.clone() } else { b.price.clone() };
            if r.chance(0.12) {
                price = respell(&price, r);
            }
            let mut size = match r.below(10) {
                0..=3 => m,
                4..=5 => (inc * r.range(1, (m / inc).max(1) as u64) as u128).min(m),
                6..=8 => {
                    if r.chance(prof.p_nonlot) {
                        (unit * r.range(1, (m / unit).max(1) as u64) as u128).min(m)
                    } else {
                        m
                    }
                }
                _ => 1 + r.below(m.min(u64::MAX as u128) as u64) as u128,
            };
            let mut ask_id = ai.clone();
            let mut bid_id = bi.clone();
            let mut funds = vec![];
            if r.chance(prof.p_mutate) {
                match r.below(10) {
                    0 => size = m + 1,
                    1 => size = a.remaining.max(b.remaining) + unit,
                    2 => size = 0,
                    3 => {
                        // strictly between / outside the limits
                        if let (Parsed::Ok(x), Parsed::Ok(_)) = (dec::parse(&a.price), dec::parse(&b.price)) {
                            let u0 = dec::to_u128(x.mant).unwrap_or(1);
                            price = Px { units: if r.chance(0.5) { u0 + 1 } else { u0.saturating_sub(1).max(1) }, d: x.scale }.render();
                        }
                    }
                    4 => {
                        if r.chance(0.5) {
                            price = r.pick(&["", "abc", "0", "-1"]).to_string();
                        } else if let Parsed::Ok(x) = dec::parse(if r.chance(0.5) { &a.price } else { &b.price }) {
                            // a price with more decimals than the precision that rounds to a limit,
                            // with a size for which size x price is still whole
                            let e = wg.precision + 1;
                            let u0 = dec::to_u128(x.mant).unwrap_or(1) * 10u128.pow(e.saturating_sub(x.scale));
                            let delta = if r.chance(0.5) { 2 } else { 4 };
                            let units = if r.chance(0.5) { u0 + delta } else { u0.saturating_sub(delta).max(1) };
                            price = Px { units, d: e }.render();
                            if m >= 5 * unit {
                                size = unit * 5 * r.range(1, (m / (5 * unit)) as u64) as u128;
                            }
                        }
                    }
                    5 => ask_id = random_id(r, view, closed),
                    6 => bid_id = random_id(r, view, closed),
                    7 => {
                        if r.chance(0.25) {
                            funds = vec![CoinS::new(1, &b.quote)]
                        } else {
                            size = m + 1
                        }
                    }
                    8 => ask_id = ask_id.replace('-', ""),
                    _ => std::mem::swap(&mut ask_id, &mut bid_id),
                }
            }
            Some((sender, funds, json!({"execute_match": {"ask_id": ask_id, "bid_id": bid_id, "price": price, "size": size.to_string()}})))
        }
        4 => {
            // owner cancels
            let ask_side = if view.asks.is_empty() { false } else if view.bids.is_empty() { true } else { r.chance(0.5) };
            if view.asks.is_empty() && view.bids.is_empty() {
                return None;
            }
            let (id, owner) = if ask_side {
                let k: Vec<(&String, &ShadowAsk)> = view.asks.iter().collect();
                let (i, a) = *r.pick(&k);
                (i.clone(), a.owner.clone())
            } else {
                let k: Vec<(&String, &ShadowBid)> = view.bids.iter().collect();
                let (i, b) = *r.pick(&k);
                (i.clone(), b.owner.clone())
            };
            let mut sender = owner;
            let mut funds = vec![];
            let mut id2 = id.clone();
            if r.chance(prof.p_mutate) {
                match r.below(4) {
                    0 => sender = r.pick(&accounts).clone(),
                    1 => {
                        if r.chance(0.25) {
                            funds = vec![CoinS::new(1, &cfg.base_denom)]
                        } else {
                            sender = r.pick(&accounts).clone()
                        }
                    }
                    2 => id2 = random_id(r, view, closed),
                    _ => id2 = other_spelling(&id2, r),
                }
            }
            let k = if ask_side { "cancel_ask" } else { "cancel_bid" };
            Some((sender, funds, json!({k: {"id": id2}})))
        }
        5 | 6 => {
            // executor expires / rejects
            if view.asks.is_empty() && view.bids.is_empty() {
                return None;
            }
            let ask_side = if view.asks.is_empty() { false } else if view.bids.is_empty() { true } else { r.chance(0.5) };
            let h = sim.chain.height;
            let (id, rem) = if ask_side {
                let k: Vec<(&String, &ShadowAsk)> = view.asks.iter().collect();
                let old: Vec<&(&String, &ShadowAsk)> = k.iter().filter(|(_, a)| h.saturating_sub(a.born) > ttl).collect();
                let (i, a) = if !old.is_empty() { **r.pick(&old) } else { *r.pick(&k) };
                (i.clone(), a.remaining)
            } else {
                let k: Vec<(&String, &ShadowBid)> = view.bids.iter().collect();
                let old: Vec<&(&String, &ShadowBid)> = k.iter().filter(|(_, a)| h.saturating_sub(a.born) > ttl).collect();
                let (i, b) = if !old.is_empty() { **r.pick(&old) } else { *r.pick(&k) };
                (i.clone(), b.remaining)
            };
            let mut sender = r.pick(&cfg.executors).clone();
            let mut funds = vec![];
            let mut id2 = id.clone();
            let expire = r.chance(0.35);
            let mut size: Option<u128> = None;
            if !expire && r.chance(prof.p_partial_reject) {
                let lots = (rem / inc).max(1);
                size = Some(inc * r.range(1, lots as u64) as u128);
            }
            if r.chance(prof.p_mutate) {
                match r.below(7) {
                    0 => sender = r.pick(&accounts).clone(),
                    1 => {
                        if r.chance(0.25) {
                            funds = vec![CoinS::new(1, &cfg.base_denom)]
                        } else {
                            size = Some(rem + inc)
                        }
                    }
                    2 => id2 = if r.chance(0.5) { random_id(r, view, closed) } else { other_spelling(&id2, r) },
                    3 => size = Some(rem + inc),
                    4 => size = Some(0),
                    5 => size = Some(if inc > 1 { inc * r.range(0, (rem / inc) as u64) as u128 + 1 + r.below((inc - 1).min(u64::MAX as u128) as u64) as u128 } else { rem + 1 }),
                    _ => size = Some(rem),
                }
            }
            let msg = if expire && size.is_none() {
                json!({ if ask_side { "expire_ask" } else { "expire_bid" }: {"id": id2} })
            } else {
                let k = if ask_side { "reject_ask" } else { "reject_bid" };
                match size {
                    Some(s) => json!({k: {"id": id2, "size": s.to_string()}}),
                    None => json!({k: {"id": id2}}),
                }
            };
            Some((sender, funds, msg))
        }
        7 => Some(gen_modify(sim, cfg, r, &accounts)),
        _ => {
            // adversary: a plausible request from an arbitrary account
            let sender = r.pick(&sim.spec.accounts).clone();
            let id = random_id(r, view, closed);
            let msg = match r.below(9) {
                0 => json!({"cancel_ask": {"id": id}}),
                1 => json!({"cancel_bid": {"id": id}}),
                2 => json!({"expire_ask": {"id": id}}),
                3 => json!({"expire_bid": {"id": id}}),
                4 => json!({"reject_ask": {"id": id}}),
                5 => json!({"reject_bid": {"id": id, "size": inc.to_string()}}),
                6 => json!({"modify_contract": {"executors": [sender]}}),
                7 => {
                    let sz = view.asks.get(&id).map(|a| a.remaining).unwrap_or(inc);
                    return Some((sender, vec![CoinS::new(sz, &cfg.base_denom)], json!({"approve_ask": {"id": id, "base": cfg.base_denom, "size": sz.to_string()}})));
                }
                _ => {
                    let bid = random_id(r, view, closed);
                    let price = view.asks.get(&id).map(|a| a.price.clone()).unwrap_or_else(|| "1".into());
                    json!({"execute_match": {"ask_id": id, "bid_id": bid, "price": price, "size": inc.to_string()}})
                }
            };
            Some((sender, vec![], msg))
        }
    }
}

/// a denomination one edit away from a traded one (shorter, longer, other case): not traded
fn near_miss_denom(d: &str, r: &mut Rng) -> String {
    let n = d.len();
    match r.below(4) {
        0 if n > 3 && d.is_char_boundary(1) => d[1..].to_string(),
        1 if n > 3 && d.is_char_boundary(n - 1) => d[..n - 1].to_string(),
        2 => d.to_uppercase(),
        _ => format!("{}{}", r.pick(&["n", "u", "x"]), d),
    }
}

/// a role list far longer than any the tests use (limits and caps on list lengths are a classic slip)
fn extend_long(v: &mut Vec<String>, r: &mut Rng) {
    let n = r.range(9, 40);
    for i in 0..n {
        v.push(format!("zz_extra_{:02}", i));
    }
}

fn gen_modify(sim: &Sim, cfg: &Cfg, r: &mut Rng, accounts: &[String]) -> (String, Vec<CoinS>, Value) {
    let sender = if r.chance(0.92) { r.pick(&cfg.executors).clone() } else { r.pick(accounts).clone() };
    let mut m = json!({});
    if r.chance(0.3) {
        let mut v = cfg.approvers.clone();
        match r.below(6) {
            0 => v.push(r.pick(accounts).clone()),
            1 => {
                if !v.is_empty() {
                    let i = r.below(v.len() as u64) as usize;
                    v.remove(i);
                }
            }
            2 => v.reverse(),
            3 => v = vec![],
            4 => v = vec![r.pick(accounts).clone()],
            _ => match r.below(7) {
                6 => {
                    // grows overall but loses one current member
                    if !v.is_empty() {
                        let i = r.below(v.len() as u64) as usize;
                        v.remove(i);
                    }
                    for _ in 0..2 {
                        let a = r.pick(accounts).clone();
                        if !v.contains(&a) && !cfg.approvers.contains(&a) {
                            v.push(a);
                        }
                    }
                }
                0 => v.push("Bad-Addr".into()),
                1 => v = vec!["".into()],
                2 => v.insert(r.below(v.len() as u64 + 1) as usize, "".into()),
                3 => {
                    // a kept approver named twice, another one silently missing
                    if v.len() >= 2 {
                        let keep = v[0].clone();
                        v[1] = keep;
                        v.push(r.pick(accounts).clone());
                    }
                }
                4 => extend_long(&mut v, r),
                _ => {}
            },
        }
        m["approvers"] = json!(v);
    }
    if r.chance(0.3) {
        let mut v = cfg.executors.clone();
        match r.below(5) {
            0 => v.push(r.pick(accounts).clone()),
            1 => {
                if v.len() > 1 {
                    v.remove(0);
                }
            }
            2 => v = vec![],
            3 => v.reverse(),
            _ => match r.below(4) {
                0 => v = vec!["".into()],
                1 => v = vec!["".into(), "".into()],
                2 => v.insert(r.below(v.len() as u64 + 1) as usize, "".into()),
                _ => {
                    if r.chance(0.4) {
                        extend_long(&mut v, r)
                    } else {
                        v = vec![r.pick(accounts).clone(), sender.clone()]
                    }
                }
            },
        }
        m["executors"] = json!(v);
    }
    for (side, cur) in [("ask", &cfg.ask_fee), ("bid", &cfg.bid_fee)] {
        if r.chance(0.45) {
            let (rate, acct): (Value, Value) = match r.below(9) {
                0 | 1 => match cur {
                    // same number, other spelling, maybe another account (or a blank one)
                    Some(f) => (
                        json!(respell(&f.rate, r)),
                        json!(match r.below(5) {
                            0 => String::new(),
                            1 | 2 => f.account.clone(),
                            _ => r.pick(accounts).clone(),
                        }),
                    ),
                    None => (json!(*r.pick(&RATES_PLAIN)), json!(r.pick(accounts).clone())),
                },
                2 => match cur {
                    Some(f) => (json!(f.rate.clone()), json!(r.pick(accounts).clone())),
                    None => (json!(*r.pick(&RATES_PLAIN)), json!(r.pick(accounts).clone())),
                },
                3 => {
                    if r.chance(0.25) {
                        // more decimals than the arithmetic keeps: same value after rounding, or not
                        let basis = match cur {
                            Some(f) if r.chance(0.5) => f.rate.clone(),
                            _ => r.pick(&RATES_PLAIN).to_string(),
                        };
                        let basis = if basis.contains('.') { basis } else { format!("{}.0", basis) };
                        let pad = 30usize.saturating_sub(basis.split('.').nth(1).map(|x| x.len()).unwrap_or(0));
                        (json!(format!("{}{}1", basis, "0".repeat(pad))), json!(r.pick(accounts).clone()))
                    } else {
                        (json!(*r.pick(&RATES_TIE)), json!(r.pick(accounts).clone()))
                    }
                }
                4 => {
                    if cur.is_some() || r.chance(0.2) {
                        (json!(""), json!(""))
                    } else {
                        (json!(*r.pick(&RATES_TIE)), json!(r.pick(accounts).clone()))
                    }
                }
                5 => (json!(*r.pick(&RATES_PLAIN)), Value::Null),
                6 => (Value::Null, json!(r.pick(accounts).clone())),
                7 => (json!(*r.pick(&["abc", "", "1,0"])), json!(r.pick(accounts).clone())),
                _ => (json!(*r.pick(&RATES_PLAIN)), json!(*r.pick(&["", "ab", "Bad-Addr"]))),
            };
            if !rate.is_null() {
                m[format!("{}_fee_rate", side)] = rate;
            }
            if !acct.is_null() {
                m[format!("{}_fee_account", side)] = acct;
            }
        }
        if r.chance(0.25) {
            let cur_attrs = if side == "ask" { &cfg.ask_attrs } else { &cfg.bid_attrs };
            let l: Vec<String> = match r.below(4) {
                0 => vec![],
                1 => {
                    if r.chance(0.2) {
                        cur_attrs.clone()
                    } else {
                        vec!["ask.accredited".into()]
                    }
                }
                2 => vec![r.pick(&["ask.kyc", "KYC.Verified", "Ask.Accredited"]).to_string()],
                _ => vec!["bid.kyc".into(), "ask.kyc".into()],
            };
            m[format!("{}_required_attributes", side)] = json!(l);
        }
    }
    if r.chance(0.1) {
        // the same pair supplied for both sides
        if let (Some(rt), Some(ac)) = (m.get("ask_fee_rate").cloned(), m.get("ask_fee_account").cloned()) {
            m["bid_fee_rate"] = rt;
            m["bid_fee_account"] = ac;
        }
    }
    let _ = sim;
    (sender, vec![], json!({"modify_contract": m}))
}
