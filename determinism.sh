#!/bin/bash
# Determinism proof: the same VERIF_SEED must give byte-identical event-log hashes in separate
# processes and at different worker counts. Usage: ./determinism.sh [runs-per-profile] [seed]
set -u
HERE="$(cd "$(dirname "$0")" && pwd)"
"$HERE/build.sh" || exit 2
N="${1:-2000}"; SEED="${2:-7}"; D=$(mktemp -d /tmp/det.XXXXXX); rc=0
for p in C01 C05 C10 C15; do
  for j in 1 5 16; do "$HERE/sim/target/release/dsim" determinism $p --seed $SEED --runs $N --jobs $j > $D/$p.$j || rc=2; done
  if cmp -s $D/$p.1 $D/$p.5 && cmp -s $D/$p.1 $D/$p.16; then
    echo "$p: $N runs, $(awk '{s+=$3} END{print s}' $D/$p.1) steps: identical at 1, 5 and 16 workers"
  else echo "$p: NONDETERMINISTIC"; rc=1; fi
done
rm -rf $D; exit $rc
