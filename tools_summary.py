#!/usr/bin/env python3
"""Prints the sensitivity / false-alarm summary computed from seeded/*/meta.json, mutants/results.json."""
import json, glob, os
tot=own=0; unreach=[]; other=[]; ood=[]; missed=[]
for d in sorted(glob.glob('/verif/seeded/*/meta.json')):
    m=json.load(open(d)); n=os.path.basename(os.path.dirname(d)); p=m['breaks_property']; tot+=1
    cb={k:v for k,v in m.get('caught_by',{}).items() if v not in ('missed','error','not run')}
    if p in cb: own+=1
    elif m.get('reachable_from_instantiation') is False: unreach.append(n)
    elif cb: other.append(n)
    elif m.get('assessment'): ood.append(n)
    else: missed.append(n)
print("seeded total", tot, "caught by own property's check", own)
print("unreachable from instantiation", unreach)
print("reported by another property's check (or own thorough tier) only", other)
print("outside the explored space by design / nothing demanded", ood)
print("MISSED without explanation", missed)
if os.path.exists('/verif/mutants/results.json'):
    r=json.load(open('/verif/mutants/results.json'))
    bad=[(k,p) for k,v in r.items() for p,x in v.items() if x in ('missed','error','build-failed')]
    print("hand-written mutants", len(r), "not caught", bad)
print("benign changes", len(glob.glob('/verif/mutants/benign/*.diff'))+len(glob.glob('/verif/mutants/benign_agents/*.diff')))
