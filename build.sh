#!/bin/bash
# Build /verif/sim against /repo's working tree. cargo's freshness test for path dependencies
# is mtime based; sources edited with preserved timestamps would be linked stale. So the
# contract sources are hashed and the contract crate is cleaned whenever the hash changed.
set -u
HERE="$(cd "$(dirname "$0")" && pwd)"
export CARGO_NET_OFFLINE=true
cd "$HERE/sim" || exit 2
(
  flock 9
  H=$( (cd /repo && find src Cargo.toml Cargo.lock -type f 2>/dev/null | LC_ALL=C sort | xargs sha256sum) | sha256sum | cut -d' ' -f1)
  OLD=$(cat .build_hash 2>/dev/null || true)
  if [ "$H" != "$OLD" ] || [ ! -x target/release/dsim ]; then
    cargo clean --release --offline -p ats-smart-contract >/dev/null 2>&1 || true
    rm -f .build_hash
  fi
  if ! cargo build --release --offline 2>build.log; then
    tail -40 build.log >&2
    exit 2
  fi
  echo "$H" > .build_hash
) 9>"$HERE/sim/.build.lock"
