#!/bin/bash
# False-alarm sweep on the unchanged tree: every property, many base seeds.
# Usage: ./sweep.sh <first-seed> <number-of-seeds> <runs-per-check>   (evidence goes to a scratch dir)
set -u
HERE="$(cd "$(dirname "$0")" && pwd)"
"$HERE/build.sh" || exit 2
S0="${1:-1}"; N="${2:-100}"; R="${3:-1500}"; OUT=$(mktemp -d /tmp/sweep.XXXXXX); bad=0; total=0
for ((s=S0; s<S0+N; s++)); do
  for p in C01 C02 C03 C04 C05 C06 C07 C08 C09 C10 C11 C12 C13 C14 C15 C16 C17; do
    r=$R; [ $p = C05 ] && r=$((R/5)); [ $p = C06 ] && r=$((R/2)); [ $p = C16 ] && r=$((R/3)); [ $p = C13 ] && r=$((R*4))
    "$HERE/sim/target/release/dsim" check $p --seed $s --runs $r --evidence $OUT/$p.json --replays "$HERE/replays/sweep" --known "$HERE/known_findings.json" > $OUT/log 2>&1
    rc=$?; total=$((total+r))
    if [ $rc -ne 0 ]; then bad=$((bad+1)); echo "seed=$s $p rc=$rc"; grep -E "VIOLATION|detail|HARNESS" $OUT/log | cut -c1-600; fi
  done
  echo "seed $s done (runs so far: $total, alarms: $bad)"
done
rm -rf $OUT
echo "SWEEP seeds=$N runs=$total alarms=$bad"
[ $bad -eq 0 ]
