#!/usr/bin/env python3
# writes /verif/MANIFEST.json (kept under version control; regenerate after editing this table)
import json
P = {
 "C01": ("model-free ledger invariants (solvency, per-order accounts, conservation, no overdraft) after every transaction of seeded multi-party histories with faults", "5 C01"),
 "C02": ("exact reference-model comparison of net (account, denomination) deltas and order remainders for every accepted match of seeded histories", "5 C02"),
 "C03": ("two-way accept/refuse conformance of every delivered match request against the statement's predicate, from stale executor views, duplicates and boundary mutations", "5 C03"),
 "C04": ("reference-model comparison of payouts, remainders, removal and partial-size rules on every cancel/expire/reject over order life cycles", "5 C04"),
 "C05": ("sender x request authorisation matrix (including other spellings of the order id) issued on forks of every visited state plus adversary traffic, judged by the role predicate", "5 C05"),
 "C06": ("bounded-liveness probe: owner cancel and executor expire of every open order on a fork after every step, fault-free, must succeed and make whole", "5 C06"),
 "C07": ("two-way accept/refuse conformance of every create request (one-field mutations x configurations x book x querier state) plus stored order and escrow", "5 C07"),
 "C08": ("approve decisions against the model and the state invariant 'recorded approver amount == remaining size' after every step of convertible life cycles", "5 C08"),
 "C09": ("exact bignum fee arithmetic (half-up; tie / near-tie rule derived from the 28-digit error bound) for creation fee, ask fee, fill fee, refunds, returns, the pro-rata state invariant of every open fee-bearing bid and the life-time identity per bid", "5 C09"),
 "C10": ("per-message oracle against the marker answers served, over all 3^k marker tables round-robin and marker-table change faults", "5 C10"),
 "C11": ("whole-book and raw-storage diff before/after every step (frame, monotonicity, well-formedness) in books with many orders and shared ids, plus a reordering oracle: consecutive operations on different orders must commute", "5 C11"),
 "C12": ("ModifyContract decisions (refusal rules), installed configuration, market-parameter frame and frozen-rate relation across interleaved admin and order traffic", "5 C12"),
 "C13": ("seeded instantiate messages judged both ways with stored records (input generation; said as such) plus integrality consequence over the histories that follow", "5 C13"),
 "C14": ("upgrade fault inside live histories: stored version rewritten, migrate, whole-storage comparison, overrides, version stamp, second identical migrate", "5 C14"),
 "C15": ("bids rewritten to synthesised event logs, migrate, field comparison, and step-by-step refinement of the continuation against a never-converted twin", "5 C15"),
 "C16": ("every query kind x id class after every step compared with raw storage (also on the synthesised pre-migration state), storage diff around queries, no completed order ever returned, reported amounts vs cancel payout on a fork", "5 C16"),
 "C17": ("response attributes vs the model, a model-free comparison of every reported amount with what the ledger and the book show was settled, and an attribute-only shadow book compared with the real book in every state", "5 C17"),
}
checks = []
for pid, (text, ref) in P.items():
    checks.append({
        "property_id": pid,
        "quick_cmd": f"./check {pid} quick",
        "thorough_cmd": f"./check {pid} thorough",
        "evidence_file": f"/verif/evidence/{pid}.json",
        "replay_cmd_template": "./check --replay {path}",
        "engine": "dsim",
        "technique": "deterministic simulation with fault injection (seeded search over multi-party histories, mempool schedules and injected faults; invariants + executable reference model)",
        "level_claimed": {
            "category": "exploration",
            "text": "Seeded exploration, not proof: " + text + ". Every run is a pure function of VERIF_SEED and the run index; a failure is minimised (ddmin) and written as an explicit replay file that reproduces it in a fresh process.",
            "design_ref": "DESIGN.md section " + ref,
        },
        "level_note": "Trusted: the simulated chain (transaction atomicity, bank/marker dispatch, ledger), the stub Storage/Api/Querier, the harness's decoding of stored JSON, and for model-based oracles the reference model written from the property statements (it abstains outside the numeric domain of DESIGN section 3). Native build, not wasm32. A clean batch is evidence from sampled histories only.",
    })
m = {
 "version": 1,
 "setup_cmd": "./build.sh",
 "hooks": {
   "guard": "none",
   "enable": "no hooks: the seams are the Storage / Api / Querier trait objects the contract already takes; /verif/sim links /repo as a path dependency (cargo build --release --offline in /verif/sim)",
   "baseline_off_cmd": "cd /repo && cargo test --workspace --no-fail-fast --offline",
   "source_commits": [],
   "add_only": True
 },
 "engines": [{
   "name": "dsim",
   "path": "/verif/sim",
   "serves_properties": list(P.keys()),
   "kind_free_text": "hand-written deterministic simulator (Rust): seeded world/actor/mempool/fault generators, SimChain with ledger and rollback, L1 invariants, L2 reference model, fork probes, ddmin, replay"
 }],
 "checks": checks,
 "notes": "All 17 properties are claimed. /repo carries five unguarded 'fix:' commits for genuine defects the checks found (known_findings.json, findings/*.json). quick = fixed run count per property (about 12-25 s each on 16 idle cores after the shared build); thorough = 20x the runs, every fourth run under another property's profile. exit 2 = harness/build error. Sensitivity and false-alarm evidence: mutants/ (28 hand-written breaking changes, 56 property-preserving changes) and seeded/ (breaking changes from independent sub-agents), tables in DESIGN.md section 7.",
 "not_applicable": []
}
json.dump(m, open("/verif/MANIFEST.json", "w"), indent=1)
print("ok", len(checks))
