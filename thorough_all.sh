#!/bin/bash
# every property's thorough check in sequence; evidence to a scratch dir (use ./check for evidence to keep)
HERE="$(cd "$(dirname "$0")" && pwd)"; "$HERE/build.sh" || exit 2
OUT=$(mktemp -d /tmp/thorough.XXXXXX); rc=0
for p in C01 C02 C03 C04 C05 C06 C07 C08 C09 C10 C11 C12 C13 C14 C15 C16 C17; do
  "$HERE/sim/target/release/dsim" check $p --tier thorough ${1:+--seed $1} --evidence $OUT/$p.json --replays "$HERE/replays/thorough" --known "$HERE/known_findings.json" 2>&1 | grep -v "^VERIF_SEED" | cut -c1-700
  [ ${PIPESTATUS[0]} -ne 0 ] && rc=1
done
exit $rc
